import LcModel.Prove.LemmasC04
import LcModel.Sync.LemmasFork
import LcModel.Index.LemmasC04
import LcModel.Quorum.LemmasLatest
/-!
# C04 — after a fork switch the index reflects only the new chain

Three layers take part in a fork switch:
* `Prove.commitProveState` (model of `LightClientProtocol::commit_prove_state`) decides whether
  the newly proven tip is on another branch and where the branches part (`Prove.forkOf`), logs the
  `rollback_to_block` call and stores the new tip — tied to the code by `./check C01|C11|C12|C04`
  (the rollback calls are observed through the min filtered number);
* `Sync.forkWrites` (model of the matched-blocks handling around the rollback) — tied to the code
  by `./check C04` (store triple after every fork);
* `Index.rollbackToBlock` (model of `Storage::rollback_to_block`) — tied to the code by
  `./check C03` (keyspace dumps after every rollback).
-/
namespace C04

/-! ## fork detection (Prove layer) -/
section detection
open Prove

/-- the headers a proof brings for the top of the chain: the new last-N headers and the new tip -/
def newTop (nps : ProveState) : List VH := nps.lastHeaders ++ [nps.last]

/-- **never adopted piecemeal**: when `commit_prove_state` reports a long fork, nothing — neither
the stored tip, nor the last-N headers, nor any peer state, nor the rollback log — has changed -/
theorem long_fork_store_untouched (s s' : St) (p : Nat) (nps : ProveState)
    (h : commitProveState s p nps = .ok (.ok (s', false))) : s' = s := by
  rcases commitProveState_inv h with ⟨-, h1⟩ | ⟨hb, -⟩
  · exact h1
  · cases hb

/-- without reorg headers a chain counts as unchanged iff no new header contradicts a remembered
one (the stored tip or a stored last-N header) -/
theorem fork_none_iff_consistent (s : St) (nps : ProveState)
    (hr : nps.reorgLast = []) (h1 : s.stored.tip.number ≠ 1) :
    forkOf s nps = none ↔
      ∀ h ∈ newTop nps, ∀ hash, remembered s h.number = some hash → hash = h.hid := by
  rw [forkOf_noReorg s nps hr h1]
  unfold newTop
  constructor
  · intro hn x hx
    apply remMismatch_eq_false.1
    cases hm : remMismatch s x with
    | false => rfl
    | true =>
      have hany : (nps.lastHeaders ++ [nps.last]).any (remMismatch s) = true :=
        List.any_eq_true.2 ⟨x, hx, hm⟩
      rw [if_pos hany] at hn
      cases hn
  · intro hall
    have hany : ¬ (nps.lastHeaders ++ [nps.last]).any (remMismatch s) = true := by
      intro hany
      obtain ⟨x, hx, hm⟩ := List.any_eq_true.1 hany
      have := remMismatch_eq_false.2 (hall x hx)
      rw [hm] at this
      cases this
    rw [if_neg hany]

/-- the fork point is a block both chains have -/
theorem fork_point_is_common (s : St) (nps : ProveState) (n : Nat)
    (hr : nps.reorgLast = []) (h : forkOf s nps = some (some n)) :
    ∃ x ∈ newTop nps, x.number = n ∧ remembered s n = some x.hid := by
  by_cases h1 : s.stored.tip.number = 1
  · rw [forkOf_noReorg_tip1 s nps hr h1] at h
    cases h
  · rw [forkOf_noReorg s nps hr h1] at h
    split at h
    · simp only [Option.some.injEq] at h
      obtain ⟨x, hx, hfx⟩ := List.exists_of_findSome?_eq_some h
      obtain ⟨hn, hrem⟩ := remHit_eq_some.1 hfx
      refine ⟨x, List.mem_reverse.1 hx, hn, ?_⟩
      rw [← hn]
      exact hrem
    · cases h

/-- … and the highest one: above it no new header equals a remembered one (block numbers increase
along the new headers, as `check_continuous_headers` enforces) -/
theorem fork_point_is_highest (s : St) (nps : ProveState) (n : Nat)
    (hr : nps.reorgLast = []) (h : forkOf s nps = some (some n))
    (hinc : (newTop nps).Pairwise (fun a b => a.number < b.number)) :
    ∀ x ∈ newTop nps, n < x.number → remembered s x.number ≠ some x.hid := by
  by_cases h1 : s.stored.tip.number = 1
  · rw [forkOf_noReorg_tip1 s nps hr h1] at h
    cases h
  · rw [forkOf_noReorg s nps hr h1] at h
    split at h
    · simp only [Option.some.injEq] at h
      intro x hx hlt
      exact remHit_eq_none.1
        (findSome?_reverse_highest _ (remHit s) VH.number n
          (fun a b hab => (remHit_eq_some.1 hab).1) h hinc x hx hlt)
    · cases h

/-- a reorganised chain is adopted only together with the rollback to just above the fork point -/
theorem commit_rolls_back (s s' : St) (p : Nat) (nps : ProveState) (n td : Nat) (b : Bool)
    (htd : nps.last.td = .ok td) (hlt : s.stored.td < td)
    (hf : forkOf s nps = some (some n))
    (h : commitProveState s p nps = .ok (.ok (s', b))) :
    b = true ∧ s'.rollbacks = s.rollbacks ++ [n + 1] ∧
      s'.stored = ⟨td, nps.last, nps.lastHeaders.map (fun x => (x.number, x.hid))⟩ := by
  rw [commitProveState_heavier s p nps td htd hlt, hf] at h
  obtain ⟨hb, hrb, hst⟩ := commitTailF_ok h
  exact ⟨hb, hrb, hst⟩

/-- a reorganised chain that shares no remembered header is not adopted -/
theorem commit_long_fork (s : St) (p : Nat) (nps : ProveState) (td : Nat)
    (htd : nps.last.td = .ok td) (hlt : s.stored.td < td)
    (hf : forkOf s nps = some none) :
    commitProveState s p nps = .ok (.ok (s, false)) := by
  rw [commitProveState_heavier s p nps td htd hlt, hf]

/-- the tip is stored without a rollback only if the chain is not reorganised for the store (no
remembered header is contradicted, or - with reorg headers of the peer's own previous state - the
stored tip is one of the new last headers); a stored tip at block 1 without reorg headers is always
rolled back -/
theorem no_silent_adoption (s s' : St) (p : Nat) (nps : ProveState) (td : Nat)
    (htd : nps.last.td = .ok td) (hlt : s.stored.td < td)
    (h : commitProveState s p nps = .ok (.ok (s', true)))
    (hrb : s'.rollbacks = s.rollbacks) :
    forkOf s nps = none ∧ (nps.reorgLast = [] → s.stored.tip.number ≠ 1) := by
  rw [commitProveState_heavier s p nps td htd hlt] at h
  have hne : ∀ (l : List Nat) (a : Nat), l ++ [a] ≠ l := by
    intro l a hl
    have := congrArg List.length hl
    simp at this
  cases hf : forkOf s nps with
  | none =>
    rw [hf] at h
    refine ⟨rfl, ?_⟩
    intro hnil h1
    obtain ⟨-, hrb', -⟩ := commitTailF_ok h
    rw [hrb'] at hrb
    have hre : nps.reorgLast.isEmpty = true := by rw [hnil]; rfl
    simp only [hre, h1, Bool.true_and, decide_true, if_true] at hrb
    exact hne _ _ hrb
  | some o =>
    rw [hf] at h
    cases o with
    | none => simp at h
    | some n =>
      obtain ⟨-, hrb', -⟩ := commitTailF_ok h
      rw [hrb'] at hrb
      exact absurd hrb (hne _ _)

/-- the rule before 90c5fa2: without reorg headers nothing was compared -/
def oldForkOf (s : St) (nps : ProveState) : Option (Option Nat) :=
  if nps.reorgLast.isEmpty then none
  else
    some (nps.reorgLast.reverse.findSome? (fun rh =>
      match s.stored.lastN.reverse.find? (·.1 = rh.number) with
      | some (_, hash) => if hash = rh.hid then some rh.number else none
      | none => none))

def vh (hid number parent : Nat) : VH := ⟨hid, hid, number, parent, 0, 0, ⟨0, 0, 10⟩, 0, true, true, true⟩

/-- the stored tip is block 7 (hash 70) after 5 (50), 6 (60); the proof of a heavier tip 8 (81)
starts from the remembered block 5 and brings 5 (50), 6 (61), 7 (71): the old rule sees no
fork, the repaired rule rolls back to block 6 -/
theorem old_rule_adopts_silently :
    let s : St := { initSt with stored := ⟨100, vh 70 7 60, [(5, 50), (6, 60)]⟩ }
    let nps : ProveState := ⟨vh 81 8 71, [], [vh 50 5 40, vh 61 6 50, vh 71 7 61]⟩
    oldForkOf s nps = none ∧ forkOf s nps = some (some 5) := by
  decide

/-- the reorg headers of a proof belong to the previous prove state of the peer that sent it: if
none of them is remembered but the stored tip is one of the new last headers (another peer has
moved the store to the new chain already), the store is not on a fork -/
theorem stored_tip_on_new_chain_is_no_fork (s : St) (nps : ProveState)
    (hr : nps.reorgLast ≠ [])
    (hno : ∀ rh ∈ nps.reorgLast, ∀ e, s.stored.lastN.reverse.find? (·.1 = rh.number) = some e → e.2 ≠ rh.hid)
    (hon : ∃ h ∈ newTop nps, h.hid = s.stored.tip.hid) : forkOf s nps = none := by
  unfold forkOf
  have hre : nps.reorgLast.isEmpty = false := by
    cases hl : nps.reorgLast with
    | nil => exact absurd hl hr
    | cons a t => rfl
  simp only [hre, Bool.false_eq_true, if_false]
  obtain ⟨h, hm, hh⟩ := hon
  have hany : (nps.lastHeaders ++ [nps.last]).any (fun h => decide (h.hid = s.stored.tip.hid)) = true := by
    rw [List.any_eq_true]
    exact ⟨h, hm, by simpa using hh⟩
  have key : ∀ (fs : Option Nat), fs = none →
      (if (fs.isNone && (nps.lastHeaders ++ [nps.last]).any (fun h => decide (h.hid = s.stored.tip.hid))) = true
        then (none : Option (Option Nat)) else some fs) = none := by
    intro fs hfs
    subst hfs
    simp [hany]
  apply key
  rw [List.findSome?_eq_none_iff]
  intro rh hm
  have hm' : rh ∈ nps.reorgLast := by simpa using hm
  cases hf : s.stored.lastN.reverse.find? (·.1 = rh.number) with
  | none => simp
  | some e =>
    obtain ⟨n, hash⟩ := e
    have := hno rh hm' (n, hash) hf
    simp only at this
    simp [this]

/-- before the repair this was taken for a long fork (which ends in the deliberate abort): peer 1
has moved the store to the new branch (tip 9 at hash 91 after 7, 8), peer 2 - still on the old
one - proves tip 10 with reorg headers 4, 5, 6 of its own previous state -/
theorem lagging_peer_is_no_long_fork :
    let s : St := { initSt with stored := ⟨100, vh 91 9 81, [(6, 61), (7, 71), (8, 81)]⟩ }
    let nps : ProveState := ⟨vh 101 10 91, [vh 40 4 30, vh 50 5 40, vh 60 6 50], [vh 71 7 61, vh 81 8 71, vh 91 9 81]⟩
    oldForkOf s nps = some none ∧ forkOf s nps = none := by
  decide


end detection

/-! ## matched-blocks records and filter progress (Sync layer) -/
section records
open Sync

/-- the store after the fork handling for fork point `f` -/
def afterFork (p : P) (f : Nat) : P := applyWs p (forkWrites p f)

/-- every record that starts above the fork point is gone, every other record is untouched -/
theorem fork_drops_later_records (p : P) (f : Nat) :
    (afterFork p f).records = p.records.filter (fun r => r.start ≤ f) := by
  unfold afterFork
  rw [applyWs_forkWrites]
  rfl

/-- filter syncing resumes at or below the fork point, and no script claims more than the fork
point (since the repair of the rollback number: before it a rolled-back script claimed the block
AFTER the fork point, which the rollback had just removed - `old_rollback_number_overclaims`) -/
theorem fork_rewinds (p : P) (f : Nat) :
    (afterFork p f).minF ≤ f ∧
    ∀ e ∈ (afterFork p f).scripts, e.2 ≤ f ∨ e ∈ p.scripts := by
  unfold afterFork
  rw [applyWs_forkWrites]
  have hle := forkRb_le p f
  have hpos := forkRb_pos p f
  simp only [applyW]
  constructor
  · split <;> omega
  · intro e he
    obtain ⟨e', he', rfl⟩ := List.mem_map.mp he
    split
    · left; simp only; omega
    · right; exact he'

/-- every script that was rolled back claims exactly the parent of the first removed block, and
filter syncing resumes right after it -/
theorem fork_rolled_back_scripts (p : P) (f : Nat) :
    ∀ e ∈ p.scripts, forkRb p f ≤ e.2 →
      (e.1, forkRb p f - 1) ∈ (afterFork p f).scripts ∧
      (forkRb p f ≤ p.minF → (afterFork p f).minF = forkRb p f - 1) := by
  intro e he hge
  unfold afterFork
  rw [applyWs_forkWrites]
  simp only [applyW]
  constructor
  · exact List.mem_map.mpr ⟨e, he, by simp [hge]⟩
  · intro h; simp [h]

/-- the rollback as it was before the repair (the scripts get the number of the first REMOVED
block): script 1 claims block 9 although block 9 of the new chain has not been examined -/
theorem old_rollback_number_overclaims :
    let p : P := ⟨[(1, 14)], 14, [], [(1, 9)]⟩
    let p' := applyW p (.rollback 9 9)
    (1, 9) ∈ p'.scripts ∧ p'.minF = 8 ∧ (1, 9) ∉ p'.indexed := by
  decide

/-- if no retained record reaches beyond the fork point, no block above the fork point stays
pending -/
theorem fork_clean (p : P) (f : Nat)
    (hin : ∀ r ∈ p.records, ∀ b ∈ r.matched, r.start ≤ b ∧ b < r.start + r.count)
    (hspan : ∀ r ∈ p.records, r.start ≤ f → r.start + r.count ≤ f + 1) :
    ∀ r ∈ (afterFork p f).records, ∀ b ∈ r.matched, b ≤ f := by
  intro r hr b hb
  rw [fork_drops_later_records] at hr
  obtain ⟨hr, hle⟩ := List.mem_filter.mp hr
  simp only [decide_eq_true_eq] at hle
  have h1 := (hin r hr b hb).2
  have h2 := hspan r hr hle
  omega

/-- **the known finding**: a record that starts at or below the fork point but reaches beyond it
is retained with its blocks above the fork point (hashes of the abandoned branch) -/
theorem fork_retains_abandoned_blocks :
    let p : P := ⟨[(1, 4)], 14, [⟨5, 10, [6, 12]⟩], []⟩
    (afterFork p 8).records = [⟨5, 10, [6, 12]⟩] ∧ (afterFork p 8).minF = 5 := by
  decide

/-- index entries at or above the rollback point are removed for every script whose number
reaches it -/
theorem fork_unindexes (p : P) (f : Nat) (s n b : Nat) (hs : (s, n) ∈ p.scripts)
    (hb : f + 1 ≤ b) (hn : b ≤ n) (hk : p.records = []) :
    (s, b) ∉ (afterFork p f).indexed := by
  unfold afterFork
  rw [applyWs_forkWrites]
  have hrb : forkRb p f = f + 1 := by
    unfold forkRb
    rw [hk]
    rfl
  rw [hrb]
  simp only [applyW]
  intro hm
  obtain ⟨_, hc⟩ := List.mem_filter.mp hm
  simp only [ge_iff_le, Bool.not_eq_eq_eq_not, Bool.not_true, Bool.and_eq_false_imp,
    decide_eq_true_eq, List.any_eq_false, Bool.and_eq_true, not_and] at hc
  exact hc hb (s, n) hs rfl (by simp only; omega)

/-- **resuming on the new chain**: the store after the fork handling satisfies, for the NEW chain
(which shares the blocks up to the fork point with the old one), the invariant from which
continued syncing indexes every touching block (`C08.converges_after_forks`): no block at or
below the fork point is forgotten, none above it is claimed, pending, or skipped by the filter
sync -/
theorem fork_resumes_on_new_chain (touches touches' : Nat → Nat → Bool) (g : G) (f : Nat)
    (hi : Inv touches g) (hns : NoSpan g.p f) (hnc : NoClaimInRetained g.p g.lo f)
    (hag : Agree f touches touches') :
    Inv touches' ⟨afterFork g.p f, g.lo⟩ := by
  obtain ⟨p, lo⟩ := g
  exact inv_fork hi hns hnc hag

end records

/-! ## the index after the rollback (Index layer) -/
section index
open Index

/-- **rollback restores the index**: index a well-formed chain `pre ++ post`, where `post` are
the blocks from number `n` on, with every script's recorded number at or above `n`, then roll
back to `n`: for every registered script the live cells and the history are exactly those of
indexing `pre` alone — every entry that belongs only to the abandoned blocks has disappeared,
and everything they had spent is live again -/
theorem rollback_restores_cells (scripts : List (SKey × Nat)) (pre post : List Block) (n : Nat)
    (hw : C03.WellFormed (pre ++ post))
    (hpre : ∀ b ∈ pre, b.number < n) (hpost : ∀ b ∈ post, n ≤ b.number)
    (hn : ∀ e ∈ scripts, n ≤ e.2) (hs : (scripts.map (·.1)).Nodup)
    (k : SKey) (hk : k ∈ scripts.map (·.1)) (ck : CellKey) (hck : ck.s = k) :
    lookup (rollbackToBlock ((pre ++ post).foldl filterBlock (C03.emptyIndex scripts)) n).cells ck =
      lookup (pre.foldl filterBlock (C03.emptyIndex scripts)).cells ck := by
  exact rollback_restores_cells_aux scripts pre post n hw hpre hpost hn hs k hk ck hck

theorem rollback_restores_history (scripts : List (SKey × Nat)) (pre post : List Block) (n : Nat)
    (hw : C03.WellFormed (pre ++ post))
    (hpre : ∀ b ∈ pre, b.number < n) (hpost : ∀ b ∈ post, n ≤ b.number)
    (hn : ∀ e ∈ scripts, n ≤ e.2) (hs : (scripts.map (·.1)).Nodup)
    (k : SKey) (hk : k ∈ scripts.map (·.1)) (hkey : HistKey) (hck : hkey.s = k) :
    lookup (rollbackToBlock ((pre ++ post).foldl filterBlock (C03.emptyIndex scripts)) n).hist hkey =
      lookup (pre.foldl filterBlock (C03.emptyIndex scripts)).hist hkey := by
  have _ := hw  -- not needed: history keys carry the block number
  have _ := hs
  exact rollback_restores_history_aux scripts pre post n hpre hpost hn k hk hkey hck

/-- a script whose recorded number is below the rollback point is skipped by the rollback: its
entries of the abandoned blocks stay (this happens when a script is registered again with a
lower number while its old entries exist) -/
theorem rollback_skips_lower_scripts :
    ∃ (s : St) (n : Nat) (hk : HistKey), hk.bn ≥ n ∧ lookup s.hist hk ≠ none ∧
      lookup (rollbackToBlock s n).hist hk ≠ none := by
  refine ⟨⟨[(⟨7, false⟩, 1)], [], [], [(⟨⟨7, false⟩, 5, 0, 0, true⟩, 9)], [], []⟩, 3,
    ⟨⟨7, false⟩, 5, 0, 0, true⟩, ?_, ?_, ?_⟩ <;> decide

end index

/-! ## the known finding `filters-of-a-lagging-peer-accepted`, in the model of the agreement -/

/-- Three proven peers; the chain was reorganised after the second block behind the finalized check
point.  Peer 1 has followed (filter hashes `[1, 2, 7, 8]`, the NEW branch, on which the stored tip
is), peers 2 and 3 still hold the hashes of the abandoned branch `[1, 2, 3, 4]`.  With the quorum
2 of 3 `get_latest_block_filter_hashes` returns the OLD branch's hashes: block filters of the
abandoned branch are "authentic" for the heights 3 and 4, the new branch's are refused.  The
premise of `C06.latest_honest_majority` (fewer than `required` peers deviate from the chain) fails
for the chain of the stored tip: two peers deviate — honestly, they lag. -/
theorem lagging_majority_decides_the_filter_hashes :
    let data : List (Nat × List Nat) := [(1, [1, 2, 7, 8]), (2, [1, 2, 3, 4]), (3, [1, 2, 3, 4])]
    let newBranch : List Nat := [1, 2, 7, 8]
    Quorum.latestAgreed? 2 data [1, 2, 3, 4] = some [1, 2, 3, 4] ∧
    Quorum.latestAgreed? 2 data [1, 2, 7, 8] = none ∧
    (data.filter (fun p => decide (¬ p.2 <+: newBranch))).length = 2 := by
  decide

end C04


import LcModel.Prove.LemmasC10
import LcModel.Cbmt.Witness
import LcModel.Mmr.NoAbort
/-!
# C10 — no light-client handler aborts on peer-supplied input

Subject: `Prove.onLastState` (`SendLastStateProcess::execute`), `Prove.onProof`
(`SendLastStateProofProcess::execute`), `Prove.onTick` (`refresh_all_peers`), `Prove.onConnect`,
`Prove.onDisconnect`, tied to the code by `./check C10`.  The model lives in `M = Except Panic`:
every Rust operation that can abort (checked `u64` / `U256` arithmetic, slice indexing, `expect`)
is an `.error (.overflow | .index | .expect) site`; the one documented deliberate abort is
`.error (.deliberate 70)` ("long fork detected", raised when a proof requested *after* a long fork
was detected verifies).

`Prove.WfSt B s` is the invariant of the repaired code about data kept from earlier messages:
* the total difficulty of every verifiable header stored in a peer state (last state, prove
  request, last header of a prove state) fits into 256 bits, so `total_difficulty()` succeeds;
* the stored total difficulty is a `U256`; `last_n_blocks ≥ 1`;
* the block numbers of proved headers (last header and remembered last-N headers of every prove
  state, the stored last-N headers) are at most `B`.

`B` starts at `B0 = u64::MAX / 4 + 1` — `verify_mmr_proof` refuses chain roots which end after
`MAX_PROVABLE_BLOCK_NUMBER = u64::MAX / 4` — and grows by one with every `SendLastState`
(the child fast path proves block `n + 1` from block `n` without a chain root check of its own).
The handlers cannot abort while `B + last_n_blocks ≤ u64::MAX`, i.e. for the first
`3 · 2^62 - 101 ≈ 1.38 · 10^19` announcements (`reachable_no_abort`).  The bound is sharp in the
model (`number_bound_needed`): behind it `is_parent_of` evaluates `u64::MAX + 1`.

Hypotheses about inputs, all stated explicitly:
* `ProofMsg.Typed`: the block numbers of a decoded message are `u64`;
* `VidSame`: the abstraction function gives equal `vid`s only to equal verifiable headers
  (`if_verifiable_headers_are_same` compares the whole header) — needed only for the *preservation*
  of the number bound by `onProof`, not for its termination;
* `refreshPeriod ≤ now` for the timer (`now - REFRESH_PEERS_DURATION`, the client's own clock).
The sampled difficulties and boundaries drawn by the client need no side condition.
-/
namespace C10
open Prove

/-- the bound on proved block numbers before any `SendLastState` child step:
`MAX_PROVABLE_BLOCK_NUMBER + 1` -/
def B0 : Nat := U64_MAX / 4 + 1

/-! ## the invariant -/

theorem initSt_wf (B : Nat) : WfSt B initSt := Prove.initSt_wf B

theorem wf_mono {B B' : Nat} {s : St} (h : WfSt B s) (hb : B ≤ B') : WfSt B' s := h.mono hb

/-- what the invariant gives: the total difficulty of every stored verifiable header can be
calculated -/
theorem wf_stored_td {B : Nat} {s : St} (h : WfSt B s) (p : Nat) (pst : PeerState)
    (hp : getPeer s p = some pst) :
    (∀ ls, pst.lastState? = some ls → ∃ t, ls.h.td = .ok t) ∧
    (∀ r, pst.proveRequest? = some r → ∃ t, r.last.td = .ok t) ∧
    (∀ ps, pst.proveState? = some ps → ∃ t, ps.last.td = .ok t) :=
  ⟨fun ls hls => ⟨_, (td_of_tdOk ((h.getPeer hp).ls ls hls)).1⟩,
   fun r hr => ⟨_, (td_of_tdOk ((h.getPeer hp).rq r hr)).1⟩,
   fun ps hps => ⟨_, (td_of_tdOk ((h.getPeer hp).ps ps hps).td).1⟩⟩

/-! ## `SendLastState` -/

/-- **C10 (`SendLastState` never aborts).**  Any header — any numbers, any total difficulty. -/
theorem onLastState_no_abort {B : Nat} {s : St} (hw : WfSt B s)
    (hB : B + s.lastNBlocks ≤ U64_MAX) (p : Nat) (h : VH) (now boundary : Nat)
    (samples : List Nat) :
    ∃ o, onLastState s p h now boundary samples = .ok o := by
  obtain ⟨o, ho, -⟩ := onLastState_tot hw hB p h now boundary samples
  exact ⟨o, ho⟩

/-- `SendLastState` keeps the invariant; the bound on proved block numbers grows by one -/
theorem onLastState_preserves {B : Nat} {s : St} (hw : WfSt B s)
    (hB : B + s.lastNBlocks ≤ U64_MAX) (p : Nat) (h : VH) (now boundary : Nat)
    (samples : List Nat) (o : Out) (ho : onLastState s p h now boundary samples = .ok o) :
    WfSt (B + 1) o.st := by
  obtain ⟨o', ho', hwf⟩ := onLastState_tot hw hB p h now boundary samples
  rw [ho] at ho'; cases ho'; exact hwf

/-! ## `SendLastStateProof` -/

/-- **C10 (`SendLastStateProof` never aborts, except for the documented long-fork abort).** -/
theorem onProof_no_abort {B : Nat} {s : St} (hw : WfSt B s) (hB : B + s.lastNBlocks ≤ U64_MAX)
    (hB0 : B0 ≤ B) (p : Nat) (m : ProofMsg) (hty : m.Typed) (now b : Nat) (ds : List Nat)
    (bG : Nat) (dsG : List Nat) :
    (∃ o, onProof s p m now b ds bG dsG = .ok o) ∨
      onProof s p m now b ds bG dsG = .error (.deliberate 70) := by
  rcases onProof_tot hw hB hB0 p hty now b ds bG dsG with ⟨o, ho, -⟩ | he
  · exact .inl ⟨o, ho⟩
  · exact .inr he

/-- `SendLastStateProof` keeps the invariant with the same bound: a committed proof is for a block
whose parent chain root ends at most at `MAX_PROVABLE_BLOCK_NUMBER` -/
theorem onProof_preserves {B : Nat} {s : St} (hw : WfSt B s) (hB : B + s.lastNBlocks ≤ U64_MAX)
    (hB0 : B0 ≤ B) (p : Nat) (m : ProofMsg) (hty : m.Typed) (hvid : VidSame s p m) (now b : Nat)
    (ds : List Nat) (bG : Nat) (dsG : List Nat) (o : Out)
    (ho : onProof s p m now b ds bG dsG = .ok o) : WfSt B o.st := by
  rcases onProof_tot hw hB hB0 p hty now b ds bG dsG with ⟨o', ho', hwf⟩ | he
  · rw [ho] at ho'; cases ho'; exact hwf hvid
  · rw [ho] at he; cases he

/-! ## the refresh timer, connect, disconnect -/

/-- **C10 (the refresh timer never aborts)**, for a clock at or after `REFRESH_PEERS_DURATION` -/
theorem onTick_no_abort {B : Nat} {s : St} (hw : WfSt B s) (hB : B + s.lastNBlocks ≤ U64_MAX)
    (now : Nat) (si : SampleInputs) (hnow : s.refreshPeriod ≤ now) :
    ∃ o, onTick s now si = .ok o := by
  obtain ⟨o, ho, -⟩ := onTick_tot hw hB now si hnow
  exact ⟨o, ho⟩

theorem onTick_preserves {B : Nat} {s : St} (hw : WfSt B s) (hB : B + s.lastNBlocks ≤ U64_MAX)
    (now : Nat) (si : SampleInputs) (hnow : s.refreshPeriod ≤ now) (o : TickOut)
    (ho : onTick s now si = .ok o) : WfSt B o.st := by
  obtain ⟨o', ho', hwf, -⟩ := onTick_tot hw hB now si hnow
  rw [ho] at ho'; cases ho'; exact hwf

theorem onConnect_preserves {B : Nat} {s : St} (hw : WfSt B s) (p now : Nat) :
    WfSt B (onConnect s p now).1 := onConnect_wf hw p now

theorem onDisconnect_preserves {B : Nat} {s : St} (hw : WfSt B s) (p : Nat) :
    WfSt B (onDisconnect s p) := onDisconnect_wf hw p

/-! ## every reachable state -/

/-- the states reachable from the initial state by handlers which returned, `k` of them
`SendLastState`; the messages are arbitrary apart from the two abstraction hypotheses -/
inductive Reach : Nat → St → Prop
  | init : Reach 0 initSt
  | connect {k : Nat} {s : St} (p now : Nat) : Reach k s → Reach k (onConnect s p now).1
  | disconnect {k : Nat} {s : St} (p : Nat) : Reach k s → Reach k (onDisconnect s p)
  | lastState {k : Nat} {s : St} (p : Nat) (h : VH) (now b : Nat) (ds : List Nat) (o : Out) :
      Reach k s → onLastState s p h now b ds = .ok o → Reach (k + 1) o.st
  | proof {k : Nat} {s : St} (p : Nat) (m : ProofMsg) (now b : Nat) (ds : List Nat) (bG : Nat)
      (dsG : List Nat) (o : Out) : Reach k s → m.Typed → VidSame s p m →
      onProof s p m now b ds bG dsG = .ok o → Reach k o.st
  | tick {k : Nat} {s : St} (now : Nat) (si : SampleInputs) (o : TickOut) :
      Reach k s → onTick s now si = .ok o → Reach k o.st

/-- `last_n_blocks` never changes -/
theorem reach_lastNBlocks {k : Nat} {s : St} (hr : Reach k s) : s.lastNBlocks = 100 := by
  induction hr with
  | init => rfl
  | connect p now _ ih => exact ih
  | disconnect p _ ih => exact ih
  | lastState p h now b ds o _ ho ih => rw [onLastState_lastNBlocks ho]; exact ih
  | proof p m now b ds bG dsG o _ _ _ ho ih => rw [onProof_lastNBlocks ho]; exact ih
  | tick now si o _ ho ih => rw [(onTick_lastNBlocks ho).1]; exact ih

/-- **C10 (the invariant holds in every reachable state)** while the bound on the proved block
numbers leaves room for `last_n_blocks` -/
theorem reach_wf {k : Nat} {s : St} (hr : Reach k s) (hk : B0 + k + 100 ≤ U64_MAX) :
    WfSt (B0 + k) s := by
  induction hr with
  | init => exact initSt_wf _
  | connect p now _ ih => exact onConnect_preserves (ih hk) p now
  | disconnect p _ ih => exact onDisconnect_preserves (ih hk) p
  | @lastState k s p h now b ds o hr ho ih =>
    have hw := ih (by omega)
    have := onLastState_preserves hw (by rw [reach_lastNBlocks hr]; omega) p h now b ds o ho
    rw [Nat.add_assoc] at this; exact this
  | @proof k s p m now b ds bG dsG o hr hty hv ho ih =>
    exact onProof_preserves (ih hk) (by rw [reach_lastNBlocks hr]; omega) (Nat.le_add_right ..)
      p m hty hv now b ds bG dsG o ho
  | @tick k s now si o hr ho ih =>
    exact onTick_preserves (ih hk) (by rw [reach_lastNBlocks hr]; omega) now si
      (onTick_lastNBlocks ho).2 o ho

/-- **C10 (no abort in any reachable state).**  In every state reachable from the initial state
by `k ≤ 3 · 2^62 - 101` `SendLastState` messages and any number of other events — connects,
disconnects, `SendLastStateProof` messages, timer ticks, in any order, from any peers, with any
contents — `SendLastState` and the refresh timer return, and `SendLastStateProof` returns or
stops with the documented long-fork abort. -/
theorem reachable_no_abort {k : Nat} {s : St} (hr : Reach k s) (hk : B0 + k + 100 ≤ U64_MAX) :
    (∀ p h now b ds, ∃ o, onLastState s p h now b ds = .ok o) ∧
    (∀ p m now b ds bG dsG, m.Typed →
      (∃ o, onProof s p m now b ds bG dsG = .ok o) ∨
        onProof s p m now b ds bG dsG = .error (.deliberate 70)) ∧
    (∀ now si, s.refreshPeriod ≤ now → ∃ o, onTick s now si = .ok o) := by
  have hw := reach_wf hr hk
  have hB : B0 + k + s.lastNBlocks ≤ U64_MAX := by rw [reach_lastNBlocks hr]; exact hk
  exact ⟨fun p h now b ds => onLastState_no_abort hw hB p h now b ds,
    fun p m now b ds bG dsG hty =>
      onProof_no_abort hw hB (Nat.le_add_right ..) p m hty now b ds bG dsG,
    fun now si hnow => onTick_no_abort hw hB now si hnow⟩

/-- the number of announcements the bound leaves room for -/
theorem room : U64_MAX - B0 - 100 = 3 * 2 ^ 62 - 101 := by decide

/-! ## the bound is needed, and witnesses kept from the pinned tree -/

/-- The bound on the proved block numbers is needed: with a proved header of number `u64::MAX`
(unreachable: `reach_wf`), the child check of `SendLastState` evaluates `u64::MAX + 1` in
`is_parent_of` — model and code abort. -/
theorem number_bound_needed :
    let parent : VH := ⟨1, 1, U64_MAX, 0, 900, U64_MAX - 1, ⟨0, 10, 1000⟩, 0x20028f5c, true, true, true⟩
    let child : VH := ⟨2, 2, 0, 1, 1000, U64_MAX, ⟨0, 11, 1000⟩, 0x20028f5c, true, true, true⟩
    let s : St := ⟨100, 60000, 8000, 2, [(7, .ready ⟨parent, 0⟩ ⟨parent, [], []⟩)], ⟨1000, parent, []⟩, []⟩
    onLastState s 7 child 5 0 [] = .error (.overflow 61) := by
  rfl

/-- Witness kept from the pinned tree (slice index out of range, `send_last_state_proof.rs`
`headers[(reorg_count - 1)..=reorg_count]`): a response with the reorg section only, for a client
without a proved state, is refused with 452 `InvalidReorgHeaders`.  Since the repair of
`check_if_response_is_matched` (C01: an empty last-N section is refused when blocks
`[start, last)` exist) such a response reaches the slice only in the corner start = last (first
conjunct); with blocks since the start block — the original witness, second conjunct — it is
refused earlier, with 400 `MalformedProtocolMessage`. -/
theorem witness_reorg_only :
    let hd (n ptd : Nat) : VH := ⟨n, n, n, n - 1, ptd, n - 1, ⟨0, n, 1000⟩, 0x20028f5c, true, true, true⟩
    let req5 : ProveRequest := ⟨hd 5 400, ⟨5, 0, 5, 2, 0, []⟩, false, false⟩
    let s5 : St := ⟨2, 60000, 8000, 2, [(1, .requestFirstLastStateProof ⟨hd 5 400, 0⟩ req5 0)],
      ⟨0, hd 0 0, []⟩, []⟩
    let req : ProveRequest := ⟨hd 10 900, ⟨10, 0, 5, 2, 0, []⟩, false, false⟩
    let s : St := ⟨2, 60000, 8000, 2, [(1, .requestFirstLastStateProof ⟨hd 10 900, 0⟩ req 0)],
      ⟨0, hd 0 0, []⟩, []⟩
    (onProof s5 1 ⟨hd 5 400, [hd 3 200, hd 4 300], false, true⟩ 5 0 [] 0 []).map (·.outcome)
      = .ok (.ban 452) ∧
    (onProof s 1 ⟨hd 10 900, [hd 3 200, hd 4 300], false, true⟩ 5 0 [] 0 []).map (·.outcome)
      = .ok (.ban 400) := by
  refine ⟨by rfl, by rfl⟩

/-- Witness kept from the pinned tree (`before_boundary_count - reorg_count` underflow): reorg
headers which reach the difficulty boundary are refused with 452 `InvalidReorgHeaders`. -/
theorem witness_boundary_in_reorg :
    let hd (n ptd : Nat) : VH := ⟨n, n, n, n - 1, ptd, n - 1, ⟨0, n, 1000⟩, 0x20028f5c, true, true, true⟩
    checkMatched 2 ⟨10, 0, 5, 2, 0, []⟩
      [hd 3 200, hd 4 300, hd 5 400, hd 6 500, hd 7 600] (hd 10 900) = .ok (.error 452) := by
  rfl

/-- Witness kept from the pinned tree (`total_difficulty()` overflow): a header whose parent
total difficulty is `2^256 - 1` is refused with 434 `InvalidTotalDifficulty`, by `SendLastState`
and — as the last header or as any header of the response — by `SendLastStateProof`. -/
theorem witness_total_difficulty_overflow :
    let hd (n ptd : Nat) : VH := ⟨n, n, n, n - 1, ptd, n - 1, ⟨0, n, 1000⟩, 0x20028f5c, true, true, true⟩
    let req : ProveRequest := ⟨hd 10 900, ⟨10, 0, 5, 2, 0, []⟩, false, false⟩
    let s : St := ⟨2, 60000, 8000, 2, [(1, .requestFirstLastStateProof ⟨hd 10 900, 0⟩ req 0)],
      ⟨0, hd 0 0, []⟩, []⟩
    (onLastState s 1 (hd 11 U256_MAX) 5 0 []).map (·.outcome) = .ok (.ban 434) ∧
    (onProof s 1 ⟨hd 11 U256_MAX, [], true, true⟩ 5 0 [] 0 []).map (·.outcome) = .ok (.ban 434) ∧
    (onProof s 1 ⟨hd 10 900, [hd 3 200, hd 4 U256_MAX], false, true⟩ 5 0 [] 0 []).map (·.outcome)
      = .ok (.ban 434) := by
  refine ⟨by rfl, by rfl, by rfl⟩

/-- Block numbers at the top of the `u64` range cannot abort the handlers: the MMR checks refuse
them (439 `InvalidProof`) before anything is added to them. -/
theorem witness_max_block_number :
    let hd (n ptd : Nat) : VH := ⟨n, n, n, n - 1, ptd, n - 1, ⟨0, n, 1000⟩, 0x20028f5c, true, true, true⟩
    let last : VH := hd U64_MAX 900
    let req : ProveRequest := ⟨last, ⟨U64_MAX, 0, U64_MAX - 2, 2, 0, []⟩, false, false⟩
    let s : St := ⟨2, 60000, 8000, 2, [(1, .requestFirstLastStateProof ⟨last, 0⟩ req 0)],
      ⟨0, hd 0 0, []⟩, []⟩
    (onProof s 1 ⟨last, [hd (U64_MAX - 2) 200, hd (U64_MAX - 1) 300], false, true⟩ 5 0 [] 0 []).map
      (·.outcome) = .ok (.ban 439) := by
  rfl

/-! ## `verify_mmr_proof` (called by SendLastStateProof, SendBlocksProof, SendTransactionsProof) -/

/-- **`verify_mmr_proof` returns for every input.**  `MergeHeaderDigest::merge` adds two total
difficulties with an aborting `+` and computes `end_number + 1` on `u64`, `calculate_peak_root`
computes `pos - sibling_offset` on `u64`; all of these numbers are the peer's.  For every last
header, proof and header list, `verify_mmr_proof` (with the checked sums and the end-number bound
of repair c68a262) answers `Ok` or `InvalidProof`: the difficulty of every digest the library
builds is bounded by the sum the wrapper has checked (`Mmr.Fits`), and every queue entry carries
its true height, so a right child always has its left sibling (`Mmr.QInv`, the theory of MMR
positions in `Mmr/Positions.lean`).  (The other `u64` operations on positions - `pos + 1`,
`pos + parent_offset`, the shifts - stay below 2^63 by the wrapper's bound on the root's end
number and are modelled on naturals.) -/
theorem verify_mmr_proof_no_abort (valid : Bool) (lastNumber : Nat) (root : Mmr.Digest)
    (proof : List Mmr.Digest) (headers : List Mmr.Hdr) :
    ∃ b, Mmr.verifyMmrProof valid lastNumber root proof headers = .ok b :=
  Mmr.verifyMmrProof_no_abort valid lastNumber root proof headers

/-- the two aborting additions of `merge` in particular are never reached -/
theorem verify_mmr_proof_no_merge_abort (valid : Bool) (lastNumber : Nat) (root : Mmr.Digest)
    (proof : List Mmr.Digest) (headers : List Mmr.Hdr) :
    Mmr.verifyMmrProof valid lastNumber root proof headers ≠ .error (.panic (.overflow 901)) ∧
    Mmr.verifyMmrProof valid lastNumber root proof headers ≠ .error (.panic (.overflow 902)) :=
  Mmr.verifyMmrProof_no_merge_abort valid lastNumber root proof headers

/-- the bound is needed: two digests whose difficulties do not fit together abort `merge` -/
theorem merge_aborts_without_the_bound :
    Mmr.merge { (default : Mmr.Digest) with td := U256_MAX } { (default : Mmr.Digest) with td := 1 }
      = .error (.panic (.overflow 901)) := by
  rfl


/-! ## the transactions Merkle proof of `SendTransactionsProof` -/

/-- **the check of a filtered block never aborts**, whatever indices, lemmas and transactions the
peer sends (`merkle-cbt` computes `index + 1` on `u32`; the guard of the repository refuses the
index 2^32 - 1 and every index list the loop would not consume completely). -/
theorem filtered_block_check_no_abort (troot witnessesRoot : Cbmt.T) (indices : List Nat)
    (lemmas txHashes : List Cbmt.T) :
    ∃ b, Cbmt.checkFilteredBlock troot witnessesRoot indices lemmas txHashes = .ok b :=
  Cbmt.checkFilteredBlock_no_abort troot witnessesRoot indices lemmas txHashes

/-- witness of the abort repaired by fb17202: the index 2^32 - 1 in front of another one -/
theorem witness_merkle_index_max :
    Cbmt.checkFilteredBlockCfg false Cbmt.Witness.troot Cbmt.Witness.wroot [3, U32_MAX] []
      [Cbmt.Witness.x, Cbmt.Witness.c] = .error (.overflow 951) :=
  Cbmt.Witness.old_check_aborts


end C10

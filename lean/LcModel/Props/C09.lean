import LcModel.Sync.LemmasFork
/-!
# C09 — set_scripts does what the README says and never makes a kept script lose history

Subject: `Sync.setScriptsWrites` / `filtersWrites` / `blocksWrites` (model of
`Storage::update_filter_scripts`, `BlockFiltersProcess::execute` and the completion branch of
`SyncProtocol::received(SendBlock)`), tied to the code by `./check C09` (state after every
store-changing message and the sequence of write sites of every operation).
-/
namespace C09
open Sync

/-! ## the documented script set -/

def lookup (s : Nat) (l : List (Nat × Nat)) : Option Nat := (l.find? (·.1 = s)).map (·.2)

/-- the store after a completed `set_scripts` -/
def afterSet (p : P) (cmd : Cmd) (arg : List (Nat × Nat)) : P :=
  applyWs p (setScriptsWrites p cmd arg)

/-- `all`: exactly the given scripts, each with the (last) given number -/
theorem set_all_replaces (p : P) (arg : List (Nat × Nat)) (s : Nat) :
    lookup s (afterSet p .all arg).scripts = lastGiven s arg := by
  unfold lookup afterSet
  rw [scripts_after_set_all, lookup_foldl_upsert]
  cases lastGiven s arg <;> rfl

/-- `partial`: the given scripts with the given numbers, every other script unchanged -/
theorem set_partial_upserts (p : P) (arg : List (Nat × Nat)) (s : Nat)
    (hk : (p.scripts.map (·.1)).Nodup) :
    lookup s (afterSet p .part arg).scripts = (lastGiven s arg).orElse (fun _ => lookup s p.scripts) := by
  have _ := hk  -- not needed: the lookup finds the first entry, whatever the keys
  unfold lookup afterSet
  rw [scripts_after_set_part, lookup_foldl_upsert]

/-- `delete`: the named scripts are gone, every other script unchanged -/
theorem set_delete_removes (p : P) (arg : List (Nat × Nat)) (s : Nat)
    (hk : (p.scripts.map (·.1)).Nodup) :
    lookup s (afterSet p .del arg).scripts =
      if arg.any (·.1 = s) then none else lookup s p.scripts := by
  have _ := hk  -- not needed: the lookup finds the first entry, whatever the keys
  unfold lookup afterSet
  cases arg with
  | nil => rw [scripts_after_set_del_nil]; simp
  | cons x rest => rw [scripts_after_set_del_cons, lookup_filter_not_any]

/-- every command that changes anything discards all pending matched blocks -/
theorem set_discards_records (p : P) (cmd : Cmd) (arg : List (Nat × Nat))
    (h : setScriptsWrites p cmd arg ≠ []) : (afterSet p cmd arg).records = [] := by
  exact records_after_set p cmd arg h

/-- the script keys stay unique -/
theorem set_keys_nodup (p : P) (cmd : Cmd) (arg : List (Nat × Nat))
    (hk : (p.scripts.map (·.1)).Nodup) : ((afterSet p cmd arg).scripts.map (·.1)).Nodup := by
  exact keys_after_set p cmd arg hk

/-! ## no kept script loses history -/

/-- **C09, one step**: the invariant survives every completed operation — in particular every
`set_scripts` command issued with matched blocks pending or partly downloaded -/
theorem inv_step (touches : Nat → Nat → Bool) (g : G) (op : Op)
    (hi : Inv touches g) (ho : OpOk touches g op) : Inv touches (stepFull g op) := by
  exact inv_stepFull touches g op hi ho

/-- **C09, every history** of commands, filter batches and block arrivals -/
theorem inv_run (touches : Nat → Nat → Bool) (g : G) (h : List Op)
    (hi : Inv touches g) (ho : HistOk touches g (h.map (fun op => (op, none)))) :
    Inv touches (runG touches g (h.map (fun op => (op, none)))) := by
  exact inv_runG touches _ g hi ho

/-- the empty store a client starts with satisfies the invariant -/
theorem inv_init (touches : Nat → Nat → Bool) (lo : Nat → Nat) (m : Nat) :
    Inv touches ⟨⟨[], m, [], []⟩, lo⟩ := by
  refine ⟨List.nodup_nil, ?_, ?_, ?_, List.Pairwise.nil, ?_, ?_⟩
  · intro e he; cases he
  · intro e he; cases he
  · intro r hr; cases hr
  · intro r hr; cases hr
  · intro r hr; cases hr

/-- **no overclaim**: in every reachable state, a block at or below the number `get_scripts`
reports for a script, above the number the script was registered with, that touches the script,
is indexed -/
theorem no_overclaim (touches : Nat → Nat → Bool) (g : G) (hi : Inv touches g)
    (s n b : Nat) (hs : (s, n) ∈ g.p.scripts) (ht : touches s b = true)
    (hlo : g.lo s < b) (hb : b ≤ n) : (s, b) ∈ g.p.indexed :=
  hi.safe (s, n) hs b ht hlo hb

/-- **nothing lost**: once filter sync has reached `tip` and no record is pending, every block up
to `tip` that touches a registered script above its registration number is indexed -/
theorem nothing_lost (touches : Nat → Nat → Bool) (g : G) (hi : Inv touches g)
    (tip : Nat) (hdone : g.p.records = []) (htip : tip ≤ g.p.minF)
    (s n b : Nat) (hs : (s, n) ∈ g.p.scripts) (ht : touches s b = true)
    (hlo : g.lo s < b) (hb : b ≤ tip) : (s, b) ∈ g.p.indexed := by
  exact indexed_of_done hi hdone hs ht hlo (Nat.le_trans hb htip)

/-- **no overclaim, reorganisations included**: after every history of commands, filter batches,
block arrivals, crashes at any write boundary and reorganisations of the chain (each handled
completely, possibly after crashes inside the handling), a block of the CURRENT chain at or below
the number `get_scripts` reports for a script, above the number the script was registered with,
that touches the script, is indexed -/
theorem no_overclaim_after_forks (evs : List Ev) (touches : Nat → Nat → Bool) (g : G)
    (hi : Inv touches g) (ho : EvsOk touches g evs)
    (s n b : Nat) (hs : (s, n) ∈ (runEv touches g evs).2.p.scripts)
    (ht : (runEv touches g evs).1 s b = true) (hlo : (runEv touches g evs).2.lo s < b)
    (hb : b ≤ n) : (s, b) ∈ (runEv touches g evs).2.p.indexed :=
  (inv_runEv evs touches g hi ho).safe (s, n) hs b ht hlo hb

/-! ## the rule before the repair loses history (the defect fixed by 6d2afd8) -/

/-- the partial command as it was: the min filtered number only moves down to the smallest given
number -/
def oldPartialWrites (p : P) (arg : List (Nat × Nat)) : List W :=
  if arg.isEmpty then []
  else
    let m := (minOf (arg.map (·.2))).getD 0
    [.setBatch (arg.foldl upsert p.scripts) (some (if p.scripts.isEmpty then m else min m p.minF))]

/-- script 1 (registered from 0, number 0) waits for block 5 in a record; registering script 2
from 20 drops the record and keeps filtering from 11: block 5 is neither indexed nor pending -/
theorem old_partial_rule_loses :
    let touches : Nat → Nat → Bool := fun s b => s == 1 && b == 5
    let g : G := ⟨⟨[(1, 0)], 10, [⟨1, 10, [5]⟩], []⟩, fun _ => 0⟩
    Inv touches g ∧
    let p' := applyWs g.p (oldPartialWrites g.p [(2, 20)])
    (1, 0) ∈ p'.scripts ∧ 5 ≤ p'.minF ∧ (1, 5) ∉ p'.indexed ∧ p'.records = [] := by
  intro touches g
  refine ⟨inv_example_pending, ?_⟩
  intro p'
  decide

/-! ## the rollback number before the repair loses history (the defect fixed by 17fa136) -/

/-- script 1 has been followed up to block 14; the chain forks at 8.  With the number the
rollback used to record (9, the first REMOVED block), the first filter batch after the fork
(blocks 9..11, block 9 matches) and a `set_scripts partial` for another script leave block 9 of
the new chain neither indexed nor pending nor to be filtered again: the command rewinds to the
number of the kept script, 9 -/
theorem old_rollback_number_then_set_scripts_loses :
    let p : P := ⟨[(1, 14)], 14, [], [(1, 9), (1, 3)]⟩
    let p1 := applyW p (.rollback 9 9)
    let p2 := applyWs p1 (filtersWrites p1 9 3 [9] true)
    let p3 := applyWs p2 (setScriptsWrites p2 .part [(2, 100)])
    (1, 9) ∈ p3.scripts ∧ p3.minF = 9 ∧ (1, 9) ∉ p3.indexed ∧ p3.records = [] := by
  decide

/-- the same history with the number recorded since the repair (8, the parent of the first
removed block): the command rewinds to 8, block 9 is filtered again -/
theorem rollback_number_then_set_scripts_refilters :
    let p : P := ⟨[(1, 14)], 14, [], [(1, 9), (1, 3)]⟩
    let p1 := applyWs p (forkWrites p 8)
    let p2 := applyWs p1 (filtersWrites p1 9 3 [9] true)
    let p3 := applyWs p2 (setScriptsWrites p2 .part [(2, 100)])
    (1, 8) ∈ p3.scripts ∧ p3.minF = 8 ∧ p3.records = [] := by
  decide

/-! ## 'no matched blocks pending' must be read from the store (a seeded change of round six) -/

/-- the stale-answer branch of `BlockFiltersProcess` (a `BlockFilters` message that does not start
right after the filtered height) raises the scripts' numbers to the filtered height when NO record
is pending.  Deciding that from the in-memory matched blocks - empty after a restart until the
filter timer has read the record again - raises script 1 to 10 although block 5, which touches it,
still waits in the record: `get_scripts` overclaims, and the next `set_scripts` that keeps script 1
rewinds to 10 and loses block 5 for good -/
theorem stale_rule_by_memory_overclaims :
    let touches : Nat → Nat → Bool := fun s b => s == 1 && b == 5
    let g : G := ⟨⟨[(1, 0)], 10, [⟨1, 10, [5]⟩], []⟩, fun _ => 0⟩
    Inv touches g ∧ filtersWrites g.p 7 3 [] true = [] ∧
    let p' := applyW g.p (.updateBlockNumber g.p.minF)
    ¬ Inv touches ⟨p', g.lo⟩ := by
  intro touches g
  refine ⟨inv_example_pending, by decide, ?_⟩
  intro p' h
  have hs := h.safe (1, 10) (by decide) 5 (by decide) (by decide) (by decide)
  exact absurd hs (by decide)

/-! ## non-vacuity -/

/-- a state with a pending record, a kept script below it and a command that names another
script: the premises of `inv_step` hold and the step rewinds -/
example :
    let touches : Nat → Nat → Bool := fun s b => s == 1 && b == 5
    let g : G := ⟨⟨[(1, 0)], 10, [⟨1, 10, [5]⟩], []⟩, fun _ => 0⟩
    Inv touches g ∧ OpOk touches g (.set .part [(2, 20)]) ∧
    (stepFull g (.set .part [(2, 20)])).p.minF = 0 := by
  intro touches g
  exact ⟨inv_example_pending, trivial, by decide⟩

end C09

import LcModel.Filter.Lemmas
import LcModel.Filter.LemmasHashes
/-!
# C06 — block filters are acted on only if authentic

Subject: `Filter.execute` (model of `BlockFiltersProcess::execute`, with `calc_filter_hash` as the
parameter `H`, the GCS verdicts and the peer-agreed latest filter hashes as inputs), tied to the
code by `./check C06` (every `BlockFilters` delivery of the attack histories — honest and
tampered — is run through both).

`trueHash n` / `trueFilter n` are the filter hash and the filter of block `n` of the chain the
finalized check points belong to.
-/
namespace C06
open Filter

/-- the filter hashes of a chain: each is `H` of the previous one and the block's filter -/
def ChainHashes (H : Nat → Nat → Nat) (trueHash trueFilter : Nat → Nat) : Prop :=
  ∀ n, trueHash (n + 1) = H (trueHash n) (trueFilter (n + 1))

/-- the hashes a state holds are the chain's: the stored check points, the cached hashes of a
complete (hence end-checked) interval, and the latest hashes the peers agree on -/
structure Authentic (trueHash : Nat → Nat) (s : St) (latest : List Nat) : Prop where
  cps : ∀ i h, s.cps[i]? = some h → h = trueHash (s.interval * i)
  cached : s.interval ≤ s.cached.length →
    ∀ i h, s.cached[i]? = some h → h = trueHash (s.interval * s.cachedIdx + 1 + i)
  latest : ∀ i h, latest[i]? = some h → h = trueHash (s.interval * s.finIdx + 1 + i)

/-- **never aborts**: no index, arithmetic or `expect` failure for any message, provided the
stored check points reach the finalized index (they are written before the index is raised) -/
theorem no_abort (H : Nat → Nat → Nat) (s : St) (proved : Bool) (latest : List Nat) (m : Msg)
    (hc : s.finIdx < s.cps.length) (hci : s.cachedIdx ≤ s.finIdx) :
    ∃ r, execute H s proved latest m = .ok r :=
  execute_no_abort H s proved latest m hc hci

/-- anything but an accepted batch leaves the state alone -/
theorem rejected_unchanged (H : Nat → Nat → Nat) (s s' : St) (proved : Bool) (latest : List Nat)
    (m : Msg) (r : Res) (h : execute H s proved latest m = .ok (s', r))
    (hr : ∀ k l, r ≠ .accepted k l) : s' = s :=
  execute_not_accepted H s s' proved latest m r h hr

/-- an accepted batch comes from a peer with a proved state, starts right after the filtered
height, and moves the filtered height over exactly the accepted filters -/
theorem accepted_shape (H : Nat → Nat → Nat) (s s' : St) (proved : Bool) (latest : List Nat)
    (m : Msg) (k : Nat) (l : List Nat)
    (h : execute H s proved latest m = .ok (s', .accepted k l)) :
    proved = true ∧ s.scriptsEmpty = false ∧ m.start = s.minF + 1 ∧ k ≤ m.filters.length ∧
      s'.minF = s.minF + k := by
  obtain ⟨h1, h2, h3, _, _, parent, expected, _, hk, _, hs, _⟩ :=
    (execute_accepted_iff H s s' proved latest m k l).1 h
  refine ⟨h2, h1, h3.symm, by omega, ?_⟩
  rw [hs, moveTo_minF]; omega

/-- **C06 (authenticity)**: if the hash function is collision free, the chain's filter hashes are
chained by it, and the hashes the state holds are the chain's, then every accepted filter is the
chain's own filter of the block it is taken for -/
theorem accepted_filters_authentic (H : Nat → Nat → Nat) (trueHash trueFilter : Nat → Nat)
    (hinj : ∀ a b c d, H a b = H c d → a = c ∧ b = d)
    (hch : ChainHashes H trueHash trueFilter)
    (s s' : St) (proved : Bool) (latest : List Nat) (m : Msg) (k : Nat) (l : List Nat)
    (hi : 0 < s.interval) (ha : Authentic trueHash s latest)
    (h : execute H s proved latest m = .ok (s', .accepted k l)) :
    ∀ i, i < k → m.filters[i]? = some (trueFilter (m.start + i)) := by
  obtain ⟨_, _, _, _, _, parent, expected, hx, hk, hcc, _, _⟩ :=
    (execute_accepted_iff H s s' proved latest m k l).1 h
  have _ := hi -- not needed: the statement holds for `interval = 0` too
  intro i hik
  have key : ∀ n, parent = trueHash n → (∀ j e, expected[j]? = some e → e = trueHash (n + 1 + j)) →
      m.start = n + 1 → m.filters[i]? = some (trueFilter (m.start + i)) := by
    intro n hp he hst
    have := checkChain_authentic H trueHash trueFilter hinj hch (m.filters.take k) expected parent n
      hcc hp he i (by simp only [List.length_take]; omega)
    rw [List.getElem?_take_of_lt hik] at this
    rw [this, hst]
  rcases expectedFor_ok hx with ⟨_, hlo, _, hlen, hcase⟩ | ⟨hlo, hcase⟩
  · rcases hcase with ⟨hst, hp, he⟩ | ⟨hst, hp, he⟩
    · refine key (s.interval * s.cachedIdx) (ha.cps _ _ hp) ?_ hst
      intro j e hj
      rw [he] at hj
      exact ha.cached hlen j e hj
    · refine key (m.start - 1) ?_ ?_ (by omega)
      · rw [ha.cached hlen _ _ hp]; congr 1; omega
      · intro j e hj
        rw [he, List.getElem?_drop] at hj
        rw [ha.cached hlen _ _ hj]; congr 1; omega
  · rcases hcase with ⟨hst, hp, he⟩ | ⟨hst, hp, he⟩
    · refine key (s.interval * s.finIdx) (ha.cps _ _ hp) ?_ hst
      intro j e hj
      rw [he] at hj
      exact ha.latest j e hj
    · refine key (m.start - 1) ?_ ?_ (by omega)
      · rw [ha.latest _ _ hp]; congr 1; omega
      · intro j e hj
        rw [he, List.getElem?_drop] at hj
        rw [ha.latest _ _ hj]; congr 1; omega

/-- inside a finalized interval a batch is accepted only against a complete cache -/
theorem cached_only_when_complete (H : Nat → Nat → Nat) (s s' : St) (proved : Bool)
    (latest : List Nat) (m : Msg) (k : Nat) (l : List Nat)
    (h : execute H s proved latest m = .ok (s', .accepted k l))
    (hfin : m.start ≤ s.interval * s.finIdx) : s.interval ≤ s.cached.length := by
  obtain ⟨_, _, _, _, _, parent, expected, hx, _⟩ :=
    (execute_accepted_iff H s s' proved latest m k l).1 h
  rcases expectedFor_ok hx with ⟨_, _, _, hlen, _⟩ | ⟨hlo, _⟩
  · exact hlen
  · omega

/-- the recorded blocks are the block hashes the message gives for the matching filters among the
accepted ones — nothing else is recorded -/
theorem matched_from_accepted (H : Nat → Nat → Nat) (s s' : St) (proved : Bool) (latest : List Nat)
    (m : Msg) (k : Nat) (l : List Nat)
    (h : execute H s proved latest m = .ok (s', .accepted k l)) :
    ∀ x ∈ l, ∃ i, i < k ∧ m.hashes[i]? = some x ∧ m.verdicts[i]? = some true := by
  obtain ⟨_, _, _, _, _, _, _, _, _, _, _, hl⟩ :=
    (execute_accepted_iff H s s' proved latest m k l).1 h
  intro x hx
  rw [hl] at hx
  exact (mem_matchedOf m k x).1 hx

/-- every accepted filter that matched has its block hash recorded (with authentic filters and
exact verdicts this is the completeness premise of C08 / C09) -/
theorem matching_recorded (H : Nat → Nat → Nat) (s s' : St) (proved : Bool) (latest : List Nat)
    (m : Msg) (k : Nat) (l : List Nat)
    (h : execute H s proved latest m = .ok (s', .accepted k l))
    (hv : m.verdicts.length = m.filters.length) :
    ∀ i x, i < k → m.hashes[i]? = some x → m.verdicts[i]? = some true → x ∈ l := by
  obtain ⟨_, _, _, _, _, _, _, _, _, _, _, hl⟩ :=
    (execute_accepted_iff H s s' proved latest m k l).1 h
  have _ := hv -- not needed: `matchedOf` zips hashes and verdicts, `i` is in range of both
  intro i x hik h1 h2
  rw [hl]
  exact (mem_matchedOf m k x).2 ⟨i, hik, h1, h2⟩

/-- **the known finding**: the block hashes are not covered by any check — the same filters with
other block hashes are accepted just the same, and the other hashes are recorded -/
theorem hashes_unverified (H : Nat → Nat → Nat) (s s' : St) (proved : Bool) (latest : List Nat)
    (m : Msg) (k : Nat) (l : List Nat) (hashes' : List Nat)
    (h : execute H s proved latest m = .ok (s', .accepted k l))
    (hl : hashes'.length = m.hashes.length) :
    execute H s proved latest { m with hashes := hashes' } =
      .ok (s', .accepted k (matchedOf { m with hashes := hashes' } k)) := by
  obtain ⟨h1, h2, h3, h4, h5, parent, expected, hx, hk, hcc, hs, _⟩ :=
    (execute_accepted_iff H s s' proved latest m k l).1 h
  exact (execute_accepted_iff H s s' proved latest { m with hashes := hashes' } k _).2
    ⟨h1, h2, h3, by simpa [hl] using h4, h5, parent, expected, hx, hk, hcc, hs, rfl⟩

/-- the rule before 8a6f6e1: a partial cache (3 of 8 hashes, never compared with the next check
point) made up by one peer is enough to move the filtered height over made-up filters -/
theorem old_rule_accepts_unchecked_cache :
    let H : Nat → Nat → Nat := fun a b => 1000 * a + b
    let s : St := ⟨8, 8, false, 3, [0, 5, 6, 7], 1, [5001, 5001001, 5001001001]⟩
    let m : Msg := ⟨9, [1, 1, 1], [91, 92, 93], [false, false, false]⟩
    (∃ parent expected, oldExpectedFor s [] 9 = .ok (.ok (parent, expected)) ∧
        checkChain H parent (m.filters.take 3) expected = true) ∧
    (∃ r, execute H s true [] m = .ok (s, .ignored r)) := by
  intro H s m
  exact ⟨⟨5, [5001, 5001001, 5001001001], rfl, rfl⟩, ⟨7, rfl⟩⟩

/-! ## the cached filter hashes (`BlockFilterHashesProcess::execute`, the cached branch)

`Authentic.cached` above is an ASSUMPTION of `accepted_filters_authentic`.  What the code that
fills the cache (`Filter.onCachedHashes`, tied to the code by `./check C06`: every
`BlockFilterHashes` delivery that takes the cached branch is run through both) establishes is
less: a complete cache ends with the next stored check point (`cache_end_checked`); the positions
before the last come from one proved peer and are compared with nothing
(`cache_middle_unchecked`). -/

/-- **the cache update never aborts**: no index, slice or subtraction failure for any message,
provided the stored check points reach the finalized index -/
theorem cached_hashes_no_abort (s : St) (proved : Bool) (start parent : Nat) (hashes : List Nat)
    (hc : s.finIdx < s.cps.length) :
    ∃ r, onCachedHashes s proved start parent hashes = .ok r :=
  hashesCore_no_abort false s proved start parent hashes hc

/-- the histories of the filter layer state: filter-hash messages (cached branch), filter
batches, moves of the filtered height by the user (`set_scripts`), new finalized check points -/
inductive Reach (H : Nat → Nat → Nat) (s0 : St) : St → Prop where
  | start : Reach H s0 s0
  | hashes {s s' : St} (proved : Bool) (start parent : Nat) (hs : List Nat) (r : HRes) :
      Reach H s0 s → onCachedHashes s proved start parent hs = .ok (s', r) → Reach H s0 s'
  | filters {s s' : St} (proved : Bool) (latest : List Nat) (m : Msg) (r : Res) :
      Reach H s0 s → execute H s proved latest m = .ok (s', r) → Reach H s0 s'
  | moved {s : St} (n : Nat) : Reach H s0 s → Reach H s0 (moveTo s n)
  | grow {s : St} (more : List Nat) (f : Nat) :
      Reach H s0 s → Reach H s0 { s with cps := s.cps ++ more, finIdx := f }

theorem reach_endChecked (H : Nat → Nat → Nat) (s0 s : St) (h0 : EndChecked s0)
    (hr : Reach H s0 s) : EndChecked s := by
  induction hr with
  | start => exact h0
  | hashes _ _ _ _ _ _ h ih => exact hashes_step_endChecked h ih
  | filters _ _ _ _ _ h ih =>
    rcases execute_state h with rfl | ⟨n, rfl⟩
    · exact ih
    · exact moveTo_endChecked _ n ih
  | moved n _ ih => exact moveTo_endChecked _ n ih
  | grow more f _ ih => exact grow_endChecked _ more f ih

/-- **what the cache update guarantees**: starting from an empty cache (what the client holds
when the filtered height enters an interval), after any history — any filter-hash messages from
any peers with any outcome, interleaved with filter batches, moves of the filtered height and
newly finalized check points — the cache is never longer than the interval, and a complete cache
holds the next stored check point in its last position -/
theorem cache_end_checked (H : Nat → Nat → Nat) (s0 s : St) (h0 : s0.cached = [])
    (hr : Reach H s0 s) :
    s.cached.length ≤ s.interval ∧
    (0 < s.interval → s.interval ≤ s.cached.length →
      s.cached.length = s.interval ∧
      ∃ cp, s.cps[s.cachedIdx + 1]? = some cp ∧ s.cached.getLast? = some cp) := by
  obtain ⟨h1, h2⟩ := reach_endChecked H s0 s (endChecked_of_empty s0 h0) hr
  refine ⟨h1, fun hp hl => ?_⟩
  obtain ⟨cp, hcp, hc⟩ := h2 hp hl
  have hlen : s.cached.length = s.interval := by omega
  refine ⟨hlen, cp, hcp, ?_⟩
  rw [List.getLast?_eq_getElem?, hlen]; exact hc

/-- a sequence of filter-hash messages `(proved, start, parent, hashes)`; an abort stops it -/
def runHashes (s : St) : List (Bool × Nat × Nat × List Nat) → St
  | [] => s
  | (p, st, pa, hs) :: ms =>
    match onCachedHashes s p st pa hs with
    | .ok (s', _) => runHashes s' ms
    | .error _ => s

/-- the same over a message list -/
theorem cache_end_checked_run (s0 : St) (h0 : s0.cached = [])
    (ms : List (Bool × Nat × Nat × List Nat)) :
    (runHashes s0 ms).cached.length ≤ s0.interval ∧
    (0 < s0.interval → s0.interval ≤ (runHashes s0 ms).cached.length →
      ∃ cp, s0.cps[s0.cachedIdx + 1]? = some cp ∧ (runHashes s0 ms).cached.getLast? = some cp) := by
  have key : ∀ (ms : List (Bool × Nat × Nat × List Nat)) (s : St),
      Reach (fun _ _ => 0) s0 s →
      Reach (fun _ _ => 0) s0 (runHashes s ms) ∧ (runHashes s ms).interval = s.interval ∧
        (runHashes s ms).cps = s.cps ∧ (runHashes s ms).cachedIdx = s.cachedIdx := by
    intro ms
    induction ms with
    | nil => intro s hs; exact ⟨hs, rfl, rfl, rfl⟩
    | cons m ms ih =>
      intro s hs
      obtain ⟨p, st, pa, hashes⟩ := m
      unfold runHashes
      cases hx : onCachedHashes s p st pa hashes with
      | error e => exact ⟨hs, rfl, rfl, rfl⟩
      | ok x =>
        obtain ⟨s', r⟩ := x
        obtain ⟨h1, h2, h3, h4⟩ := ih s' (.hashes p st pa hashes r hs hx)
        refine ⟨h1, ?_, ?_, ?_⟩
        · rw [h2]; rcases hashesCore_ok hx with rfl | ⟨_, _, rfl, _⟩ <;> rfl
        · rw [h3]; rcases hashesCore_ok hx with rfl | ⟨_, _, rfl, _⟩ <;> rfl
        · rw [h4]; rcases hashesCore_ok hx with rfl | ⟨_, _, rfl, _⟩ <;> rfl
  obtain ⟨hr, e1, e2, e3⟩ := key ms s0 .start
  obtain ⟨a, b⟩ := cache_end_checked _ s0 _ h0 hr
  rw [e1] at a b
  rw [e2, e3] at b
  exact ⟨a, fun hp hl => (b hp hl).2⟩

/-- the witness chain: every block's filter is `2`, `H a b = 1000 * a + b` -/
def wHash : Nat → Nat
  | 0 => 0
  | n + 1 => 1000 * wHash n + 2

/-- **the known finding, closed** (`C06|unauthentic-filter-accepted|ForgedCacheRightEnd`): the
stored check points are the chain's, the cache is empty; one proved peer sends a full interval of
made-up hashes (chained over the filter `1` nobody's block has) whose last entry is the next
check point: the cache takes them, and `Filter.execute` then accepts the made-up filters for
every position but the last.  `Authentic.cached`, the hypothesis of
`accepted_filters_authentic`, is NOT established by the code -/
theorem cache_middle_unchecked :
    let H : Nat → Nat → Nat := fun a b => 1000 * a + b
    let trueFilter : Nat → Nat := fun _ => 2
    let s0 : St := ⟨3, 3, false, 2, [0, 2002002, 2002002002002002], 1, []⟩
    let fake : List Nat := [2002002001, 2002002001001, 2002002002002002]
    let s1 : St := { s0 with cached := fake }
    ChainHashes H wHash trueFilter ∧
    (∀ i h, s0.cps[i]? = some h → h = wHash (s0.interval * i)) ∧
    fake = [H (wHash 3) 1, H (H (wHash 3) 1) 1, wHash 6] ∧
    onCachedHashes s0 true 4 (wHash 3) fake = .ok (s1, .updated none) ∧
    execute H s1 true [] ⟨4, [1, 1], [41, 42], [false, false]⟩ =
      .ok ({ s1 with minF := 5 }, .accepted 2 []) ∧
    trueFilter 4 ≠ 1 ∧ trueFilter 5 ≠ 1 ∧
    ¬ (∀ i h, s1.cached[i]? = some h → h = wHash (s1.interval * s1.cachedIdx + 1 + i)) := by
  intro H trueFilter s0 fake s1
  refine ⟨fun n => rfl, ?_, by decide, by rfl, by unfold s1 s0 fake H; rfl, by decide, by decide, ?_⟩
  · intro i h hi
    match i, hi with
    | 0, hi => simp [s0] at hi; subst hi; decide
    | 1, hi => simp [s0] at hi; subst hi; decide
    | 2, hi => simp [s0] at hi; subst hi; decide
    | i + 3, hi => simp [s0] at hi
  · intro hall
    exact absurd (hall 0 _ rfl) (by decide)

/-- **the rule before 18445c9** (`end_number > next check point`): a full interval of made-up
hashes that ends EXACTLY at the next check point was cached although its last entry is not the
check point; the current rule bans the sender (482) and leaves the cache alone -/
theorem old_rule_end_unchecked :
    let s0 : St := ⟨3, 3, false, 2, [0, 2002002, 2002002002002002], 1, []⟩
    let fake : List Nat := [2002002001, 2002002001001, 2002002001001001]
    onCachedHashesOld s0 true 4 2002002 fake = .ok ({ s0 with cached := fake }, .updated none) ∧
    fake.getLast? ≠ s0.cps[s0.cachedIdx + 1]? ∧
    onCachedHashes s0 true 4 2002002 fake = .ok (s0, .banned HASHES_UNEXPECTED) := by
  intro s0 fake
  exact ⟨by rfl, by decide, by rfl⟩

/-! ## non-vacuity -/

/-- `cache_end_checked`: two messages from different peers fill the cache of the interval
(blocks 4..6, the second overlaps the first and runs past the check point: truncated); the
complete cache ends with the check point -/
example :
    let s0 : St := ⟨3, 3, false, 2, [10, 20, 30], 1, []⟩
    let s2 := runHashes s0 [(true, 4, 20, [21]), (true, 4, 20, [21, 22, 30, 31, 32])]
    s2.cached = [21, 22, 30] ∧ s2.cached.getLast? = s0.cps[s0.cachedIdx + 1]? ∧
    onCachedHashes s0 true 4 20 [21] = .ok ({ s0 with cached := [21] }, .updated (some 5)) := by
  intro s0 s2
  exact ⟨by rfl, by rfl, by rfl⟩

/-- the outcomes: wrong parent at the check point (ban), gap (ignored), wrong parent inside
(ignored), wrong hash at the check point (ban), disagreement with the cache (ignored), a message
outside the cached interval (the other branch) -/
example :
    let s : St := ⟨3, 3, false, 2, [10, 20, 30], 1, [21]⟩
    onCachedHashes s true 4 99 [21] = .ok (s, .banned 482) ∧
    onCachedHashes s true 6 22 [30] = .ok (s, .ignored 2) ∧
    onCachedHashes s true 5 99 [22] = .ok (s, .ignored 3) ∧
    onCachedHashes s true 5 21 [22, 99] = .ok (s, .banned 482) ∧
    onCachedHashes s true 4 20 [88, 22] = .ok (s, .ignored 4) ∧
    onCachedHashes s true 7 30 [31] = .ok (s, .other) ∧
    onCachedHashes s false 4 20 [21] = .ok (s, .ignored 1) ∧
    onCachedHashes s true 5 21 [22, 30] = .ok ({ s with cached := [21, 22, 30] }, .updated none) := by
  intro s
  exact ⟨by rfl, by rfl, by rfl, by rfl, by rfl, by rfl, by rfl, by rfl⟩


example :
    let H : Nat → Nat → Nat := fun a b => 1000 * a + b
    let s : St := ⟨2, 2, false, 2, [0, 7, 9], 1, [7001, 7001002]⟩
    execute H s true [] ⟨3, [1, 2], [31, 32], [false, true]⟩ =
      .ok ({ s with minF := 4, cachedIdx := 2, cached := [] }, .accepted 2 [32]) := by
  rfl

end C06

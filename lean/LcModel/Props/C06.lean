import LcModel.Filter.Lemmas
import LcModel.Filter.LemmasHashes
import LcModel.Quorum.LemmasLatest
/-!
# C06 — block filters are acted on only if authentic

Subject: `Filter.execute` (model of `BlockFiltersProcess::execute`, with `calc_filter_hash` as the
parameter `H`, the GCS verdicts and the peer-agreed latest filter hashes as inputs), tied to the
code by `./check C06` (every `BlockFilters` delivery of the attack histories — honest and
tampered — is run through both).

`trueHash n` / `trueFilter n` are the filter hash and the filter of block `n` of the chain the
finalized check points belong to.
-/
namespace C06
open Filter

/-- the filter hashes of a chain: each is `H` of the previous one and the block's filter -/
def ChainHashes (H : Nat → Nat → Nat) (trueHash trueFilter : Nat → Nat) : Prop :=
  ∀ n, trueHash (n + 1) = H (trueHash n) (trueFilter (n + 1))

/-- the hashes a state holds are the chain's: the stored check points, the cached hashes of a
complete (hence end-checked) interval, and the latest hashes the peers agree on -/
structure Authentic (trueHash : Nat → Nat) (s : St) (latest : List Nat) : Prop where
  cps : ∀ i h, s.cps[i]? = some h → h = trueHash (s.interval * i)
  cached : s.interval ≤ s.cached.length →
    ∀ i h, s.cached[i]? = some h → h = trueHash (s.interval * s.cachedIdx + 1 + i)
  latest : ∀ i h, latest[i]? = some h → h = trueHash (s.interval * s.finIdx + 1 + i)

/-- **never aborts**: no index, arithmetic or `expect` failure for any message, provided the
stored check points reach the finalized index (they are written before the index is raised) -/
theorem no_abort (H : Nat → Nat → Nat) (s : St) (proved : Bool) (latest : List Nat) (m : Msg)
    (hc : s.finIdx < s.cps.length) (hci : s.cachedIdx ≤ s.finIdx) :
    ∃ r, execute H s proved latest m = .ok r :=
  execute_no_abort H s proved latest m hc hci

/-- anything but an accepted batch leaves the state alone -/
theorem rejected_unchanged (H : Nat → Nat → Nat) (s s' : St) (proved : Bool) (latest : List Nat)
    (m : Msg) (r : Res) (h : execute H s proved latest m = .ok (s', r))
    (hr : ∀ k l, r ≠ .accepted k l) : s' = s :=
  execute_not_accepted H s s' proved latest m r h hr

/-- an accepted batch comes from a peer with a proved state, starts right after the filtered
height, and moves the filtered height over exactly the accepted filters -/
theorem accepted_shape (H : Nat → Nat → Nat) (s s' : St) (proved : Bool) (latest : List Nat)
    (m : Msg) (k : Nat) (l : List Nat)
    (h : execute H s proved latest m = .ok (s', .accepted k l)) :
    proved = true ∧ s.scriptsEmpty = false ∧ m.start = s.minF + 1 ∧ k ≤ m.filters.length ∧
      s'.minF = s.minF + k := by
  obtain ⟨h1, h2, h3, _, _, parent, expected, _, hk, _, hs, _⟩ :=
    (execute_accepted_iff H s s' proved latest m k l).1 h
  refine ⟨h2, h1, h3.symm, by omega, ?_⟩
  rw [hs, moveTo_minF]; omega

/-- **C06 (authenticity)**: if the hash function is collision free, the chain's filter hashes are
chained by it, and the hashes the state holds are the chain's, then every accepted filter is the
chain's own filter of the block it is taken for -/
theorem accepted_filters_authentic (H : Nat → Nat → Nat) (trueHash trueFilter : Nat → Nat)
    (hinj : ∀ a b c d, H a b = H c d → a = c ∧ b = d)
    (hch : ChainHashes H trueHash trueFilter)
    (s s' : St) (proved : Bool) (latest : List Nat) (m : Msg) (k : Nat) (l : List Nat)
    (hi : 0 < s.interval) (ha : Authentic trueHash s latest)
    (h : execute H s proved latest m = .ok (s', .accepted k l)) :
    ∀ i, i < k → m.filters[i]? = some (trueFilter (m.start + i)) := by
  obtain ⟨_, _, _, _, _, parent, expected, hx, hk, hcc, _, _⟩ :=
    (execute_accepted_iff H s s' proved latest m k l).1 h
  have _ := hi -- not needed: the statement holds for `interval = 0` too
  intro i hik
  have key : ∀ n, parent = trueHash n → (∀ j e, expected[j]? = some e → e = trueHash (n + 1 + j)) →
      m.start = n + 1 → m.filters[i]? = some (trueFilter (m.start + i)) := by
    intro n hp he hst
    have := checkChain_authentic H trueHash trueFilter hinj hch (m.filters.take k) expected parent n
      hcc hp he i (by simp only [List.length_take]; omega)
    rw [List.getElem?_take_of_lt hik] at this
    rw [this, hst]
  rcases expectedFor_ok hx with ⟨_, hlo, _, hlen, hcase⟩ | ⟨hlo, hcase⟩
  · rcases hcase with ⟨hst, hp, he⟩ | ⟨hst, hp, he⟩
    · refine key (s.interval * s.cachedIdx) (ha.cps _ _ hp) ?_ hst
      intro j e hj
      rw [he] at hj
      exact ha.cached hlen j e hj
    · refine key (m.start - 1) ?_ ?_ (by omega)
      · rw [ha.cached hlen _ _ hp]; congr 1; omega
      · intro j e hj
        rw [he, List.getElem?_drop] at hj
        rw [ha.cached hlen _ _ hj]; congr 1; omega
  · rcases hcase with ⟨hst, hp, he⟩ | ⟨hst, hp, he⟩
    · refine key (s.interval * s.finIdx) (ha.cps _ _ hp) ?_ hst
      intro j e hj
      rw [he] at hj
      exact ha.latest j e hj
    · refine key (m.start - 1) ?_ ?_ (by omega)
      · rw [ha.latest _ _ hp]; congr 1; omega
      · intro j e hj
        rw [he, List.getElem?_drop] at hj
        rw [ha.latest _ _ hj]; congr 1; omega

/-- inside a finalized interval a batch is accepted only against a complete cache -/
theorem cached_only_when_complete (H : Nat → Nat → Nat) (s s' : St) (proved : Bool)
    (latest : List Nat) (m : Msg) (k : Nat) (l : List Nat)
    (h : execute H s proved latest m = .ok (s', .accepted k l))
    (hfin : m.start ≤ s.interval * s.finIdx) : s.interval ≤ s.cached.length := by
  obtain ⟨_, _, _, _, _, parent, expected, hx, _⟩ :=
    (execute_accepted_iff H s s' proved latest m k l).1 h
  rcases expectedFor_ok hx with ⟨_, _, _, hlen, _⟩ | ⟨hlo, _⟩
  · exact hlen
  · omega

/-- the recorded blocks are the block hashes the message gives for the matching filters among the
accepted ones — nothing else is recorded -/
theorem matched_from_accepted (H : Nat → Nat → Nat) (s s' : St) (proved : Bool) (latest : List Nat)
    (m : Msg) (k : Nat) (l : List Nat)
    (h : execute H s proved latest m = .ok (s', .accepted k l)) :
    ∀ x ∈ l, ∃ i, i < k ∧ m.hashes[i]? = some x ∧ m.verdicts[i]? = some true := by
  obtain ⟨_, _, _, _, _, _, _, _, _, _, _, hl⟩ :=
    (execute_accepted_iff H s s' proved latest m k l).1 h
  intro x hx
  rw [hl] at hx
  exact (mem_matchedOf m k x).1 hx

/-- every accepted filter that matched has its block hash recorded (with authentic filters and
exact verdicts this is the completeness premise of C08 / C09) -/
theorem matching_recorded (H : Nat → Nat → Nat) (s s' : St) (proved : Bool) (latest : List Nat)
    (m : Msg) (k : Nat) (l : List Nat)
    (h : execute H s proved latest m = .ok (s', .accepted k l))
    (hv : m.verdicts.length = m.filters.length) :
    ∀ i x, i < k → m.hashes[i]? = some x → m.verdicts[i]? = some true → x ∈ l := by
  obtain ⟨_, _, _, _, _, _, _, _, _, _, _, hl⟩ :=
    (execute_accepted_iff H s s' proved latest m k l).1 h
  have _ := hv -- not needed: `matchedOf` zips hashes and verdicts, `i` is in range of both
  intro i x hik h1 h2
  rw [hl]
  exact (mem_matchedOf m k x).2 ⟨i, hik, h1, h2⟩

/-- **the known finding**: the block hashes are not covered by any check — the same filters with
other block hashes are accepted just the same, and the other hashes are recorded -/
theorem hashes_unverified (H : Nat → Nat → Nat) (s s' : St) (proved : Bool) (latest : List Nat)
    (m : Msg) (k : Nat) (l : List Nat) (hashes' : List Nat)
    (h : execute H s proved latest m = .ok (s', .accepted k l))
    (hl : hashes'.length = m.hashes.length) :
    execute H s proved latest { m with hashes := hashes' } =
      .ok (s', .accepted k (matchedOf { m with hashes := hashes' } k)) := by
  obtain ⟨h1, h2, h3, h4, h5, parent, expected, hx, hk, hcc, hs, _⟩ :=
    (execute_accepted_iff H s s' proved latest m k l).1 h
  exact (execute_accepted_iff H s s' proved latest { m with hashes := hashes' } k _).2
    ⟨h1, h2, h3, by simpa [hl] using h4, h5, parent, expected, hx, hk, hcc, hs, rfl⟩

/-- the rule before 8a6f6e1: a partial cache (3 of 8 hashes, never compared with the next check
point) made up by one peer is enough to move the filtered height over made-up filters -/
theorem old_rule_accepts_unchecked_cache :
    let H : Nat → Nat → Nat := fun a b => 1000 * a + b
    let s : St := ⟨8, 8, false, 3, [0, 5, 6, 7], 1, [5001, 5001001, 5001001001]⟩
    let m : Msg := ⟨9, [1, 1, 1], [91, 92, 93], [false, false, false]⟩
    (∃ parent expected, oldExpectedFor s [] 9 = .ok (.ok (parent, expected)) ∧
        checkChain H parent (m.filters.take 3) expected = true) ∧
    (∃ r, execute H s true [] m = .ok (s, .ignored r)) := by
  intro H s m
  exact ⟨⟨5, [5001, 5001001, 5001001001], rfl, rfl⟩, ⟨7, rfl⟩⟩

/-! ## the cached filter hashes (`BlockFilterHashesProcess::execute`, the cached branch)

`Authentic.cached` above is an ASSUMPTION of `accepted_filters_authentic`.  What the code that
fills the cache (`Filter.onCachedHashes`, tied to the code by `./check C06`: every
`BlockFilterHashes` delivery that takes the cached branch is run through both) establishes is
less: a complete cache ends with the next stored check point (`cache_end_checked`); the positions
before the last come from one proved peer and are compared with nothing
(`cache_middle_unchecked`). -/

/-- **the cache update never aborts**: no index, slice or subtraction failure for any message,
provided the stored check points reach the finalized index -/
theorem cached_hashes_no_abort (s : St) (proved : Bool) (start parent : Nat) (hashes : List Nat)
    (hc : s.finIdx < s.cps.length) :
    ∃ r, onCachedHashes s proved start parent hashes = .ok r :=
  hashesCore_no_abort false s proved start parent hashes hc

/-- the histories of the filter layer state: filter-hash messages (cached branch), filter
batches, moves of the filtered height by the user (`set_scripts`), new finalized check points -/
inductive Reach (H : Nat → Nat → Nat) (s0 : St) : St → Prop where
  | start : Reach H s0 s0
  | hashes {s s' : St} (proved : Bool) (start parent : Nat) (hs : List Nat) (r : HRes) :
      Reach H s0 s → onCachedHashes s proved start parent hs = .ok (s', r) → Reach H s0 s'
  | filters {s s' : St} (proved : Bool) (latest : List Nat) (m : Msg) (r : Res) :
      Reach H s0 s → execute H s proved latest m = .ok (s', r) → Reach H s0 s'
  | moved {s : St} (n : Nat) : Reach H s0 s → Reach H s0 (moveTo s n)
  | grow {s : St} (more : List Nat) (f : Nat) :
      Reach H s0 s → Reach H s0 { s with cps := s.cps ++ more, finIdx := f }

theorem reach_endChecked (H : Nat → Nat → Nat) (s0 s : St) (h0 : EndChecked s0)
    (hr : Reach H s0 s) : EndChecked s := by
  induction hr with
  | start => exact h0
  | hashes _ _ _ _ _ _ h ih => exact hashes_step_endChecked h ih
  | filters _ _ _ _ _ h ih =>
    rcases execute_state h with rfl | ⟨n, rfl⟩
    · exact ih
    · exact moveTo_endChecked _ n ih
  | moved n _ ih => exact moveTo_endChecked _ n ih
  | grow more f _ ih => exact grow_endChecked _ more f ih

/-- **what the cache update guarantees**: starting from an empty cache (what the client holds
when the filtered height enters an interval), after any history — any filter-hash messages from
any peers with any outcome, interleaved with filter batches, moves of the filtered height and
newly finalized check points — the cache is never longer than the interval, and a complete cache
holds the next stored check point in its last position -/
theorem cache_end_checked (H : Nat → Nat → Nat) (s0 s : St) (h0 : s0.cached = [])
    (hr : Reach H s0 s) :
    s.cached.length ≤ s.interval ∧
    (0 < s.interval → s.interval ≤ s.cached.length →
      s.cached.length = s.interval ∧
      ∃ cp, s.cps[s.cachedIdx + 1]? = some cp ∧ s.cached.getLast? = some cp) := by
  obtain ⟨h1, h2⟩ := reach_endChecked H s0 s (endChecked_of_empty s0 h0) hr
  refine ⟨h1, fun hp hl => ?_⟩
  obtain ⟨cp, hcp, hc⟩ := h2 hp hl
  have hlen : s.cached.length = s.interval := by omega
  refine ⟨hlen, cp, hcp, ?_⟩
  rw [List.getLast?_eq_getElem?, hlen]; exact hc

/-- a sequence of filter-hash messages `(proved, start, parent, hashes)`; an abort stops it -/
def runHashes (s : St) : List (Bool × Nat × Nat × List Nat) → St
  | [] => s
  | (p, st, pa, hs) :: ms =>
    match onCachedHashes s p st pa hs with
    | .ok (s', _) => runHashes s' ms
    | .error _ => s

/-- the same over a message list -/
theorem cache_end_checked_run (s0 : St) (h0 : s0.cached = [])
    (ms : List (Bool × Nat × Nat × List Nat)) :
    (runHashes s0 ms).cached.length ≤ s0.interval ∧
    (0 < s0.interval → s0.interval ≤ (runHashes s0 ms).cached.length →
      ∃ cp, s0.cps[s0.cachedIdx + 1]? = some cp ∧ (runHashes s0 ms).cached.getLast? = some cp) := by
  have key : ∀ (ms : List (Bool × Nat × Nat × List Nat)) (s : St),
      Reach (fun _ _ => 0) s0 s →
      Reach (fun _ _ => 0) s0 (runHashes s ms) ∧ (runHashes s ms).interval = s.interval ∧
        (runHashes s ms).cps = s.cps ∧ (runHashes s ms).cachedIdx = s.cachedIdx := by
    intro ms
    induction ms with
    | nil => intro s hs; exact ⟨hs, rfl, rfl, rfl⟩
    | cons m ms ih =>
      intro s hs
      obtain ⟨p, st, pa, hashes⟩ := m
      unfold runHashes
      cases hx : onCachedHashes s p st pa hashes with
      | error e => exact ⟨hs, rfl, rfl, rfl⟩
      | ok x =>
        obtain ⟨s', r⟩ := x
        obtain ⟨h1, h2, h3, h4⟩ := ih s' (.hashes p st pa hashes r hs hx)
        refine ⟨h1, ?_, ?_, ?_⟩
        · rw [h2]; rcases hashesCore_ok hx with rfl | ⟨_, _, rfl, _⟩ <;> rfl
        · rw [h3]; rcases hashesCore_ok hx with rfl | ⟨_, _, rfl, _⟩ <;> rfl
        · rw [h4]; rcases hashesCore_ok hx with rfl | ⟨_, _, rfl, _⟩ <;> rfl
  obtain ⟨hr, e1, e2, e3⟩ := key ms s0 .start
  obtain ⟨a, b⟩ := cache_end_checked _ s0 _ h0 hr
  rw [e1] at a b
  rw [e2, e3] at b
  exact ⟨a, fun hp hl => (b hp hl).2⟩

/-- the witness chain: every block's filter is `2`, `H a b = 1000 * a + b` -/
def wHash : Nat → Nat
  | 0 => 0
  | n + 1 => 1000 * wHash n + 2

/-- **the known finding, closed** (`C06|unauthentic-filter-accepted|ForgedCacheRightEnd`): the
stored check points are the chain's, the cache is empty; one proved peer sends a full interval of
made-up hashes (chained over the filter `1` nobody's block has) whose last entry is the next
check point: the cache takes them, and `Filter.execute` then accepts the made-up filters for
every position but the last.  `Authentic.cached`, the hypothesis of
`accepted_filters_authentic`, is NOT established by the code -/
theorem cache_middle_unchecked :
    let H : Nat → Nat → Nat := fun a b => 1000 * a + b
    let trueFilter : Nat → Nat := fun _ => 2
    let s0 : St := ⟨3, 3, false, 2, [0, 2002002, 2002002002002002], 1, []⟩
    let fake : List Nat := [2002002001, 2002002001001, 2002002002002002]
    let s1 : St := { s0 with cached := fake }
    ChainHashes H wHash trueFilter ∧
    (∀ i h, s0.cps[i]? = some h → h = wHash (s0.interval * i)) ∧
    fake = [H (wHash 3) 1, H (H (wHash 3) 1) 1, wHash 6] ∧
    onCachedHashes s0 true 4 (wHash 3) fake = .ok (s1, .updated none) ∧
    execute H s1 true [] ⟨4, [1, 1], [41, 42], [false, false]⟩ =
      .ok ({ s1 with minF := 5 }, .accepted 2 []) ∧
    trueFilter 4 ≠ 1 ∧ trueFilter 5 ≠ 1 ∧
    ¬ (∀ i h, s1.cached[i]? = some h → h = wHash (s1.interval * s1.cachedIdx + 1 + i)) := by
  intro H trueFilter s0 fake s1
  refine ⟨fun n => rfl, ?_, by decide, by rfl, by unfold s1 s0 fake H; rfl, by decide, by decide, ?_⟩
  · intro i h hi
    match i, hi with
    | 0, hi => simp [s0] at hi; subst hi; decide
    | 1, hi => simp [s0] at hi; subst hi; decide
    | 2, hi => simp [s0] at hi; subst hi; decide
    | i + 3, hi => simp [s0] at hi
  · intro hall
    exact absurd (hall 0 _ rfl) (by decide)

/-- **the rule before 18445c9** (`end_number > next check point`): a full interval of made-up
hashes that ends EXACTLY at the next check point was cached although its last entry is not the
check point; the current rule bans the sender (482) and leaves the cache alone -/
theorem old_rule_end_unchecked :
    let s0 : St := ⟨3, 3, false, 2, [0, 2002002, 2002002002002002], 1, []⟩
    let fake : List Nat := [2002002001, 2002002001001, 2002002001001001]
    onCachedHashesOld s0 true 4 2002002 fake = .ok ({ s0 with cached := fake }, .updated none) ∧
    fake.getLast? ≠ s0.cps[s0.cachedIdx + 1]? ∧
    onCachedHashes s0 true 4 2002002 fake = .ok (s0, .banned HASHES_UNEXPECTED) := by
  intro s0 fake
  exact ⟨by rfl, by decide, by rfl⟩

/-! ## the agreed latest hashes (`Peers::get_latest_block_filter_hashes`)

`Authentic.latest` above is an ASSUMPTION of `accepted_filters_authentic`: `Filter.execute` takes
the peer-agreed hashes of the blocks after the last finalized check point as the input `latest`.
The function that computes them is modelled by `Quorum.latestAgreed?` (tied to the code by
`./check C06`: random tables of proven / unproven peers with hash lists that deviate from a
common list, are truncated, re-join, tie, are run through the real
`get_latest_block_filter_hashes` and the model, the implementation's result being sent as the
tie-break `choices`).  `data` = the proven peers on the finalized check point with their hash
lists (peer id × hashes); `required` = `required_peers_count()`, which is at least 1
(`latest_required_pos`: the code panics for `max_outbound_peers = 0` before the index
`required - 1` is taken); `latestAgreed? … = some result` says that `choices` were valid, i.e.
each a maximal-count hash of its index (`latest_choices_exist`: such choices always exist). -/

open Quorum (latestAgreed? latestAgreed latestAgreedSomeHash latestFor requiredPeers)

/-- **(a) quorum**: every returned prefix is held ENTIRELY by one group of at least `required`
peers of the table (a sublist of `data`: distinct table entries, hence distinct peers — see
`latest_quorum_distinct`); this is what the `retain` step buys over per-index counting -/
theorem latest_quorum (required : Nat) (data : List (Nat × List Nat)) (choices result : List Nat)
    (h : latestAgreed? required data choices = some result) (i : Nat) (hi : i < result.length) :
    ∃ group : List (Nat × List Nat), group.Sublist data ∧ required ≤ group.length ∧
      ∀ p ∈ group, result.take (i + 1) <+: p.2 :=
  Quorum.latestAgreed?_group h i hi

/-- the same in the `⊆` form, with pairwise distinct peer ids when the table's ids are -/
theorem latest_quorum_distinct (required : Nat) (data : List (Nat × List Nat))
    (choices result : List Nat) (hnd : (data.map (·.1)).Nodup)
    (h : latestAgreed? required data choices = some result) (i : Nat) (hi : i < result.length) :
    ∃ group : List (Nat × List Nat), group ⊆ data ∧ (group.map (·.1)).Nodup ∧
      group.length ≥ required ∧ ∀ p ∈ group, result.take (i + 1) <+: p.2 := by
  obtain ⟨group, hsub, hlen, hall⟩ := latest_quorum required data choices result h i hi
  exact ⟨group, hsub.subset, List.Nodup.sublist (hsub.map _) hnd, hlen, hall⟩

/-- **(b)** fewer than `required` proven peers with data: nothing is agreed, whatever the choices -/
theorem latest_empty_without_quorum (required : Nat) (data : List (Nat × List Nat))
    (choices : List Nat) (h : data.length < required) :
    latestAgreed? required data choices = some [] ∧ latestAgreed required data choices = [] := by
  have := Quorum.latestAgreed?_few choices h
  exact ⟨this, by unfold latestAgreed; rw [this]; rfl⟩

/-- the `required = 0` corner does not exist: `required_peers_count()` is `(max_outbound + 1) / 2`
and panics (`panic!("max outbound peers shouldn't be zero!")`, model: `expect 50`) when that is 0,
before `hashes_sizes[required - 1]` is evaluated -/
theorem latest_required_pos (maxOutbound : Nat) (data : List (Nat × List Nat)) (choices : List Nat) :
    (maxOutbound = 0 → latestFor maxOutbound data choices = .error (.expect 50)) ∧
    (∀ r, latestFor maxOutbound data choices = .ok r →
      0 < (maxOutbound + 1) / 2 ∧ r = latestAgreed? ((maxOutbound + 1) / 2) data choices) := by
  constructor
  · rintro rfl; rfl
  · intro r h
    unfold latestFor at h
    simp only [M.bind_eq_ok] at h
    obtain ⟨required, hr, h⟩ := h
    obtain ⟨hpos, rfl⟩ := Quorum.requiredPeers_pos hr
    simp only [M.pure_eq_ok] at h
    exact ⟨hpos, h.symm⟩

/-- valid choices exist for every table: the model rejects no table, only choices -/
theorem latest_choices_exist (required : Nat) (hreq : 0 < required) (data : List (Nat × List Nat)) :
    ∃ choices result, latestAgreed? required data choices = some result :=
  Quorum.latestAgreed?_choices_exist hreq data

/-- the general form of (c): if every group of `required` peers of the table contains a peer whose
list is `good`, every returned prefix is a prefix of a `good` list -/
theorem latest_of_every_group (good : List Nat → Prop) (required : Nat)
    (data : List (Nat × List Nat)) (choices result : List Nat)
    (hgroup : ∀ group : List (Nat × List Nat), group.Sublist data → required ≤ group.length →
      ∃ p ∈ group, good p.2)
    (h : latestAgreed? required data choices = some result) (i : Nat) (hi : i < result.length) :
    ∃ l, good l ∧ result.take (i + 1) <+: l := by
  obtain ⟨group, hsub, hlen, hall⟩ := latest_quorum required data choices result h i hi
  obtain ⟨p, hp, hg⟩ := hgroup group hsub hlen
  exact ⟨p.2, hg, hall p hp⟩

/-- **(c) honest majority**: if fewer than `required` peers of the table hold a list that is not a
prefix of the chain's hashes `truth`, every returned hash is the chain's.  (Nothing is assumed
about how many peers are honest: with too few of them the result is short or empty, never wrong.) -/
theorem latest_honest_majority (required : Nat) (data : List (Nat × List Nat))
    (choices result truth : List Nat)
    (hliars : (data.filter (fun p => decide (¬ p.2 <+: truth))).length < required)
    (h : latestAgreed? required data choices = some result) :
    ∀ (i x : Nat), result[i]? = some x → truth[i]? = some x := by
  intro i x hx
  have hi : i < result.length := (List.getElem?_eq_some_iff.1 hx).1
  obtain ⟨group, hsub, hlen, hall⟩ := latest_quorum required data choices result h i hi
  obtain ⟨p, hp, hg⟩ := Quorum.exists_good_of_few_bad _ hsub hlen hliars
  have hpre : p.2 <+: truth := by simpa using hg
  have hpt : result.take (i + 1) <+: truth := (hall p hp).trans hpre
  rw [List.prefix_iff_getElem?] at hpt
  have hlt : i < (result.take (i + 1)).length := by rw [List.length_take]; omega
  rw [hpt i hlt, List.getElem_take]
  rw [List.getElem?_eq_getElem hi] at hx
  exact hx

/-- the hypothesis `Authentic.latest` of `accepted_filters_authentic`, discharged for the hashes
`get_latest_block_filter_hashes` returns: if among every `required` proven peers on the finalized
check point one holds only hashes of the chain (at the heights after that check point), the
returned hashes are the chain's -/
theorem latest_authentic (trueHash : Nat → Nat) (s : St) (required : Nat)
    (data : List (Nat × List Nat)) (choices latest : List Nat)
    (hgroup : ∀ group : List (Nat × List Nat), group.Sublist data → required ≤ group.length →
      ∃ p ∈ group, ∀ i h, p.2[i]? = some h → h = trueHash (s.interval * s.finIdx + 1 + i))
    (h : latestAgreed? required data choices = some latest) :
    ∀ i h, latest[i]? = some h → h = trueHash (s.interval * s.finIdx + 1 + i) := by
  intro i x hx
  have hi : i < latest.length := (List.getElem?_eq_some_iff.1 hx).1
  obtain ⟨l, hl, hpre⟩ := latest_of_every_group
    (fun l => ∀ i h, l[i]? = some h → h = trueHash (s.interval * s.finIdx + 1 + i))
    required data choices latest hgroup h i hi
  apply hl i x
  rw [List.prefix_iff_getElem?] at hpre
  have hlt : i < (latest.take (i + 1)).length := by rw [List.length_take]; omega
  rw [hpre i hlt, List.getElem_take]
  rw [List.getElem?_eq_getElem hi] at hx
  exact hx

/-- the same with a count: fewer than `required` peers of the table hold a hash that is not the
chain's -/
theorem latest_authentic_of_few_liars (trueHash : Nat → Nat) (s : St) (required : Nat)
    (data : List (Nat × List Nat)) (choices latest : List Nat)
    (hliars : (data.filter (fun p => decide (p.2 ≠
      (List.range p.2.length).map (fun i => trueHash (s.interval * s.finIdx + 1 + i))))).length
        < required)
    (h : latestAgreed? required data choices = some latest) :
    ∀ i h, latest[i]? = some h → h = trueHash (s.interval * s.finIdx + 1 + i) := by
  apply latest_authentic trueHash s required data choices latest _ h
  intro group hsub hlen
  obtain ⟨p, hp, hg⟩ := Quorum.exists_good_of_few_bad _ hsub hlen hliars
  refine ⟨p, hp, ?_⟩
  have hpe : p.2 = (List.range p.2.length).map
      (fun i => trueHash (s.interval * s.finIdx + 1 + i)) := by simpa using hg
  intro i x hx
  rw [hpe] at hx
  simp only [List.getElem?_map, Option.map_eq_some_iff] at hx
  obtain ⟨j, hj, rfl⟩ := hx
  have := (List.getElem?_eq_some_iff.1 hj)
  obtain ⟨hlt, hj'⟩ := this
  rw [List.getElem_range] at hj'
  rw [hj']

/-- **C06 (authenticity) with the agreement computed**: `accepted_filters_authentic` where the
latest hashes are what `get_latest_block_filter_hashes` returns for a table in which every group
of `required` peers contains one that holds only the chain's hashes; what remains assumed about
hashes the state holds is the stored check points and the complete cache -/
theorem accepted_filters_authentic_agreed (H : Nat → Nat → Nat) (trueHash trueFilter : Nat → Nat)
    (hinj : ∀ a b c d, H a b = H c d → a = c ∧ b = d)
    (hch : ChainHashes H trueHash trueFilter)
    (s s' : St) (proved : Bool) (m : Msg) (k : Nat) (l : List Nat)
    (required : Nat) (data : List (Nat × List Nat)) (choices latest : List Nat)
    (hi : 0 < s.interval)
    (hcps : ∀ i h, s.cps[i]? = some h → h = trueHash (s.interval * i))
    (hcached : s.interval ≤ s.cached.length →
      ∀ i h, s.cached[i]? = some h → h = trueHash (s.interval * s.cachedIdx + 1 + i))
    (hgroup : ∀ group : List (Nat × List Nat), group.Sublist data → required ≤ group.length →
      ∃ p ∈ group, ∀ i h, p.2[i]? = some h → h = trueHash (s.interval * s.finIdx + 1 + i))
    (hl : latestAgreed? required data choices = some latest)
    (h : execute H s proved latest m = .ok (s', .accepted k l)) :
    ∀ i, i < k → m.filters[i]? = some (trueFilter (m.start + i)) :=
  accepted_filters_authentic H trueHash trueFilter hinj hch s s' proved latest m k l hi
    ⟨hcps, hcached, latest_authentic trueHash s required data choices latest hgroup hl⟩ h

/-- **the length bound** (liveness, not safety): the result is never longer than the
`required`-th SHORTEST list of the table, however many peers agree on more — `required` proven
peers that hold few hashes (or none: a peer that has just been proven) cap what everybody else
agrees on.  Closed: quorum 2, three peers agree on four hashes, two hold none: nothing is agreed -/
theorem latest_length_bound (required : Nat) (data : List (Nat × List Nat))
    (choices result : List Nat) (h : latestAgreed? required data choices = some result) :
    result.length ≤ (Quorum.sortNat (data.map (·.2.length)))[required - 1]?.getD 0 :=
  Quorum.latestAgreed?_length_le h

theorem latest_capped_by_short_lists :
    ∀ choices result, latestAgreed? 2
      [(1, [1, 2, 3, 4]), (2, [1, 2, 3, 4]), (3, [1, 2, 3, 4]), (4, []), (5, [])] choices
        = some result → result = [] := by
  intro choices result h
  have := latest_length_bound _ _ _ _ h
  have h0 : (Quorum.sortNat (([(1, [1, 2, 3, 4]), (2, [1, 2, 3, 4]), (3, [1, 2, 3, 4]), (4, []),
      (5, [])] : List (Nat × List Nat)).map (·.2.length)))[2 - 1]?.getD 0 = 0 := by decide
  rw [h0] at this
  exact List.length_eq_zero_iff.1 (by omega)

/-- **(d) the seeded rule is not the code's** (/verif/seeded/C06b: an index has a quorum when at
least `required` peers have SOME hash there): with `required = 2`, three peers of which one holds
`[7, 8]`, one `[9]` and one nothing, the seeded rule returns `7` — held by one peer —, and with
lists that agree on the first hash and then split `5 7 / 5 9 / 5` it returns `[5, 7]`; the code's
rule returns `[]` and `[5]` -/
theorem seeded_rule_returns_minority_hash :
    latestAgreedSomeHash 2 [(1, [7, 8]), (2, [9]), (3, [])] [7] = some [7] ∧
    latestAgreed? 2 [(1, [7, 8]), (2, [9]), (3, [])] [] = some [] ∧
    latestAgreed 2 [(1, [7, 8]), (2, [9]), (3, [])] [7] = [] ∧
    latestAgreedSomeHash 2 [(1, [5, 7]), (2, [5, 9]), (3, [5])] [5, 7] = some [5, 7] ∧
    latestAgreed? 2 [(1, [5, 7]), (2, [5, 9]), (3, [5])] [5] = some [5] ∧
    ¬ (∃ group : List (Nat × List Nat), group.Sublist [(1, [7, 8]), (2, [9]), (3, [])] ∧
        2 ≤ group.length ∧ ∀ p ∈ group, [7] <+: p.2) := by
  refine ⟨by decide, by decide, by decide, by decide, by decide, ?_⟩
  rintro ⟨group, hsub, hlen, hall⟩
  have hk : group.filter (fun p => decide ([7] <+: p.2)) = group :=
    List.filter_eq_self.2 (fun p hp => by simpa using hall p hp)
  have := (hsub.filter (fun p => decide ([7] <+: p.2))).length_le
  rw [hk] at this
  have h1 : ([(1, [7, 8]), (2, [9]), (3, [])].filter
      (fun p : Nat × List Nat => decide ([7] <+: p.2))).length = 1 := by decide
  omega

/-- **non-vacuity of (a) and (c)**: three peers, quorum 2, the chain's hashes are `1 2 3 4`; one
peer holds them all, one the first three, one deviates at the second position and re-joins.  The
result is `1 2 3`: the deviating peer is dropped by the `retain` step at the second position, so
its `4` does not count at the fourth (without `retain` it would); the two honest peers are the
group of `latest_quorum`, the single liar is below the quorum, and `latest_honest_majority`
applies.  A tie (two hashes held by one peer each, quorum 1) is resolved by the choice, and a
choice that is not a maximal-count hash is refused -/
theorem latest_example :
    let data : List (Nat × List Nat) := [(1, [1, 2, 3, 4]), (2, [1, 2, 3]), (3, [1, 9, 3, 4])]
    let truth : List Nat := [1, 2, 3, 4]
    latestAgreed? 2 data [1, 2, 3] = some [1, 2, 3] ∧
    (data.filter (fun p => decide (¬ p.2 <+: truth))).length = 1 ∧
    (∀ (i x : Nat), [1, 2, 3][i]? = some x → truth[i]? = some x) ∧
    (∃ group : List (Nat × List Nat), group.Sublist data ∧ 2 ≤ group.length ∧
      ∀ p ∈ group, [1, 2, 3].take (2 + 1) <+: p.2) ∧
    latestAgreed? 2 data [1, 9, 3] = none ∧
    latestAgreed? 1 [(1, [2]), (2, [3])] [2] = some [2] ∧
    latestAgreed? 1 [(1, [2]), (2, [3])] [3] = some [3] ∧
    latestAgreed? 1 [(1, [2]), (2, [3])] [4] = none := by
  intro data truth
  have h1 : latestAgreed? 2 data [1, 2, 3] = some [1, 2, 3] := by decide
  have h2 : (data.filter (fun p => decide (¬ p.2 <+: truth))).length = 1 := by decide
  refine ⟨h1, h2, ?_, ?_, by decide, by decide, by decide, by decide⟩
  · exact latest_honest_majority 2 data [1, 2, 3] [1, 2, 3] truth (by rw [h2]; decide) h1
  · exact latest_quorum 2 data [1, 2, 3] [1, 2, 3] h1 2 (by decide)

/-! ## non-vacuity -/

/-- `cache_end_checked`: two messages from different peers fill the cache of the interval
(blocks 4..6, the second overlaps the first and runs past the check point: truncated); the
complete cache ends with the check point -/
example :
    let s0 : St := ⟨3, 3, false, 2, [10, 20, 30], 1, []⟩
    let s2 := runHashes s0 [(true, 4, 20, [21]), (true, 4, 20, [21, 22, 30, 31, 32])]
    s2.cached = [21, 22, 30] ∧ s2.cached.getLast? = s0.cps[s0.cachedIdx + 1]? ∧
    onCachedHashes s0 true 4 20 [21] = .ok ({ s0 with cached := [21] }, .updated (some 5)) := by
  intro s0 s2
  exact ⟨by rfl, by rfl, by rfl⟩

/-- the outcomes: wrong parent at the check point (ban), gap (ignored), wrong parent inside
(ignored), wrong hash at the check point (ban), disagreement with the cache (ignored), a message
outside the cached interval (the other branch) -/
example :
    let s : St := ⟨3, 3, false, 2, [10, 20, 30], 1, [21]⟩
    onCachedHashes s true 4 99 [21] = .ok (s, .banned 482) ∧
    onCachedHashes s true 6 22 [30] = .ok (s, .ignored 2) ∧
    onCachedHashes s true 5 99 [22] = .ok (s, .ignored 3) ∧
    onCachedHashes s true 5 21 [22, 99] = .ok (s, .banned 482) ∧
    onCachedHashes s true 4 20 [88, 22] = .ok (s, .ignored 4) ∧
    onCachedHashes s true 7 30 [31] = .ok (s, .other) ∧
    onCachedHashes s false 4 20 [21] = .ok (s, .ignored 1) ∧
    onCachedHashes s true 5 21 [22, 30] = .ok ({ s with cached := [21, 22, 30] }, .updated none) := by
  intro s
  exact ⟨by rfl, by rfl, by rfl, by rfl, by rfl, by rfl, by rfl, by rfl⟩


example :
    let H : Nat → Nat → Nat := fun a b => 1000 * a + b
    let s : St := ⟨2, 2, false, 2, [0, 7, 9], 1, [7001, 7001002]⟩
    execute H s true [] ⟨3, [1, 2], [31, 32], [false, true]⟩ =
      .ok ({ s with minF := 4, cachedIdx := 2, cached := [] }, .accepted 2 [32]) := by
  rfl

end C06

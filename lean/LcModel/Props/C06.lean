import LcModel.Filter.Lemmas
/-!
# C06 — block filters are acted on only if authentic

Subject: `Filter.execute` (model of `BlockFiltersProcess::execute`, with `calc_filter_hash` as the
parameter `H`, the GCS verdicts and the peer-agreed latest filter hashes as inputs), tied to the
code by `./check C06` (every `BlockFilters` delivery of the attack histories — honest and
tampered — is run through both).

`trueHash n` / `trueFilter n` are the filter hash and the filter of block `n` of the chain the
finalized check points belong to.
-/
namespace C06
open Filter

/-- the filter hashes of a chain: each is `H` of the previous one and the block's filter -/
def ChainHashes (H : Nat → Nat → Nat) (trueHash trueFilter : Nat → Nat) : Prop :=
  ∀ n, trueHash (n + 1) = H (trueHash n) (trueFilter (n + 1))

/-- the hashes a state holds are the chain's: the stored check points, the cached hashes of a
complete (hence end-checked) interval, and the latest hashes the peers agree on -/
structure Authentic (trueHash : Nat → Nat) (s : St) (latest : List Nat) : Prop where
  cps : ∀ i h, s.cps[i]? = some h → h = trueHash (s.interval * i)
  cached : s.interval ≤ s.cached.length →
    ∀ i h, s.cached[i]? = some h → h = trueHash (s.interval * s.cachedIdx + 1 + i)
  latest : ∀ i h, latest[i]? = some h → h = trueHash (s.interval * s.finIdx + 1 + i)

/-- **never aborts**: no index, arithmetic or `expect` failure for any message, provided the
stored check points reach the finalized index (they are written before the index is raised) -/
theorem no_abort (H : Nat → Nat → Nat) (s : St) (proved : Bool) (latest : List Nat) (m : Msg)
    (hc : s.finIdx < s.cps.length) (hci : s.cachedIdx ≤ s.finIdx) :
    ∃ r, execute H s proved latest m = .ok r :=
  execute_no_abort H s proved latest m hc hci

/-- anything but an accepted batch leaves the state alone -/
theorem rejected_unchanged (H : Nat → Nat → Nat) (s s' : St) (proved : Bool) (latest : List Nat)
    (m : Msg) (r : Res) (h : execute H s proved latest m = .ok (s', r))
    (hr : ∀ k l, r ≠ .accepted k l) : s' = s :=
  execute_not_accepted H s s' proved latest m r h hr

/-- an accepted batch comes from a peer with a proved state, starts right after the filtered
height, and moves the filtered height over exactly the accepted filters -/
theorem accepted_shape (H : Nat → Nat → Nat) (s s' : St) (proved : Bool) (latest : List Nat)
    (m : Msg) (k : Nat) (l : List Nat)
    (h : execute H s proved latest m = .ok (s', .accepted k l)) :
    proved = true ∧ s.scriptsEmpty = false ∧ m.start = s.minF + 1 ∧ k ≤ m.filters.length ∧
      s'.minF = s.minF + k := by
  obtain ⟨h1, h2, h3, _, _, parent, expected, _, hk, _, hs, _⟩ :=
    (execute_accepted_iff H s s' proved latest m k l).1 h
  refine ⟨h2, h1, h3.symm, by omega, ?_⟩
  rw [hs, moveTo_minF]; omega

/-- **C06 (authenticity)**: if the hash function is collision free, the chain's filter hashes are
chained by it, and the hashes the state holds are the chain's, then every accepted filter is the
chain's own filter of the block it is taken for -/
theorem accepted_filters_authentic (H : Nat → Nat → Nat) (trueHash trueFilter : Nat → Nat)
    (hinj : ∀ a b c d, H a b = H c d → a = c ∧ b = d)
    (hch : ChainHashes H trueHash trueFilter)
    (s s' : St) (proved : Bool) (latest : List Nat) (m : Msg) (k : Nat) (l : List Nat)
    (hi : 0 < s.interval) (ha : Authentic trueHash s latest)
    (h : execute H s proved latest m = .ok (s', .accepted k l)) :
    ∀ i, i < k → m.filters[i]? = some (trueFilter (m.start + i)) := by
  obtain ⟨_, _, _, _, _, parent, expected, hx, hk, hcc, _, _⟩ :=
    (execute_accepted_iff H s s' proved latest m k l).1 h
  have _ := hi -- not needed: the statement holds for `interval = 0` too
  intro i hik
  have key : ∀ n, parent = trueHash n → (∀ j e, expected[j]? = some e → e = trueHash (n + 1 + j)) →
      m.start = n + 1 → m.filters[i]? = some (trueFilter (m.start + i)) := by
    intro n hp he hst
    have := checkChain_authentic H trueHash trueFilter hinj hch (m.filters.take k) expected parent n
      hcc hp he i (by simp only [List.length_take]; omega)
    rw [List.getElem?_take_of_lt hik] at this
    rw [this, hst]
  rcases expectedFor_ok hx with ⟨_, hlo, _, hlen, hcase⟩ | ⟨hlo, hcase⟩
  · rcases hcase with ⟨hst, hp, he⟩ | ⟨hst, hp, he⟩
    · refine key (s.interval * s.cachedIdx) (ha.cps _ _ hp) ?_ hst
      intro j e hj
      rw [he] at hj
      exact ha.cached hlen j e hj
    · refine key (m.start - 1) ?_ ?_ (by omega)
      · rw [ha.cached hlen _ _ hp]; congr 1; omega
      · intro j e hj
        rw [he, List.getElem?_drop] at hj
        rw [ha.cached hlen _ _ hj]; congr 1; omega
  · rcases hcase with ⟨hst, hp, he⟩ | ⟨hst, hp, he⟩
    · refine key (s.interval * s.finIdx) (ha.cps _ _ hp) ?_ hst
      intro j e hj
      rw [he] at hj
      exact ha.latest j e hj
    · refine key (m.start - 1) ?_ ?_ (by omega)
      · rw [ha.latest _ _ hp]; congr 1; omega
      · intro j e hj
        rw [he, List.getElem?_drop] at hj
        rw [ha.latest _ _ hj]; congr 1; omega

/-- inside a finalized interval a batch is accepted only against a complete cache -/
theorem cached_only_when_complete (H : Nat → Nat → Nat) (s s' : St) (proved : Bool)
    (latest : List Nat) (m : Msg) (k : Nat) (l : List Nat)
    (h : execute H s proved latest m = .ok (s', .accepted k l))
    (hfin : m.start ≤ s.interval * s.finIdx) : s.interval ≤ s.cached.length := by
  obtain ⟨_, _, _, _, _, parent, expected, hx, _⟩ :=
    (execute_accepted_iff H s s' proved latest m k l).1 h
  rcases expectedFor_ok hx with ⟨_, _, _, hlen, _⟩ | ⟨hlo, _⟩
  · exact hlen
  · omega

/-- the recorded blocks are the block hashes the message gives for the matching filters among the
accepted ones — nothing else is recorded -/
theorem matched_from_accepted (H : Nat → Nat → Nat) (s s' : St) (proved : Bool) (latest : List Nat)
    (m : Msg) (k : Nat) (l : List Nat)
    (h : execute H s proved latest m = .ok (s', .accepted k l)) :
    ∀ x ∈ l, ∃ i, i < k ∧ m.hashes[i]? = some x ∧ m.verdicts[i]? = some true := by
  obtain ⟨_, _, _, _, _, _, _, _, _, _, _, hl⟩ :=
    (execute_accepted_iff H s s' proved latest m k l).1 h
  intro x hx
  rw [hl] at hx
  exact (mem_matchedOf m k x).1 hx

/-- every accepted filter that matched has its block hash recorded (with authentic filters and
exact verdicts this is the completeness premise of C08 / C09) -/
theorem matching_recorded (H : Nat → Nat → Nat) (s s' : St) (proved : Bool) (latest : List Nat)
    (m : Msg) (k : Nat) (l : List Nat)
    (h : execute H s proved latest m = .ok (s', .accepted k l))
    (hv : m.verdicts.length = m.filters.length) :
    ∀ i x, i < k → m.hashes[i]? = some x → m.verdicts[i]? = some true → x ∈ l := by
  obtain ⟨_, _, _, _, _, _, _, _, _, _, _, hl⟩ :=
    (execute_accepted_iff H s s' proved latest m k l).1 h
  have _ := hv -- not needed: `matchedOf` zips hashes and verdicts, `i` is in range of both
  intro i x hik h1 h2
  rw [hl]
  exact (mem_matchedOf m k x).2 ⟨i, hik, h1, h2⟩

/-- **the known finding**: the block hashes are not covered by any check — the same filters with
other block hashes are accepted just the same, and the other hashes are recorded -/
theorem hashes_unverified (H : Nat → Nat → Nat) (s s' : St) (proved : Bool) (latest : List Nat)
    (m : Msg) (k : Nat) (l : List Nat) (hashes' : List Nat)
    (h : execute H s proved latest m = .ok (s', .accepted k l))
    (hl : hashes'.length = m.hashes.length) :
    execute H s proved latest { m with hashes := hashes' } =
      .ok (s', .accepted k (matchedOf { m with hashes := hashes' } k)) := by
  obtain ⟨h1, h2, h3, h4, h5, parent, expected, hx, hk, hcc, hs, _⟩ :=
    (execute_accepted_iff H s s' proved latest m k l).1 h
  exact (execute_accepted_iff H s s' proved latest { m with hashes := hashes' } k _).2
    ⟨h1, h2, h3, by simpa [hl] using h4, h5, parent, expected, hx, hk, hcc, hs, rfl⟩

/-- the rule before 8a6f6e1: a partial cache (3 of 8 hashes, never compared with the next check
point) made up by one peer is enough to move the filtered height over made-up filters -/
theorem old_rule_accepts_unchecked_cache :
    let H : Nat → Nat → Nat := fun a b => 1000 * a + b
    let s : St := ⟨8, 8, false, 3, [0, 5, 6, 7], 1, [5001, 5001001, 5001001001]⟩
    let m : Msg := ⟨9, [1, 1, 1], [91, 92, 93], [false, false, false]⟩
    (∃ parent expected, oldExpectedFor s [] 9 = .ok (.ok (parent, expected)) ∧
        checkChain H parent (m.filters.take 3) expected = true) ∧
    (∃ r, execute H s true [] m = .ok (s, .ignored r)) := by
  intro H s m
  exact ⟨⟨5, [5001, 5001001, 5001001001], rfl, rfl⟩, ⟨7, rfl⟩⟩

/-! ## non-vacuity -/

example :
    let H : Nat → Nat → Nat := fun a b => 1000 * a + b
    let s : St := ⟨2, 2, false, 2, [0, 7, 9], 1, [7001, 7001002]⟩
    execute H s true [] ⟨3, [1, 2], [31, 32], [false, true]⟩ =
      .ok ({ s with minF := 4, cachedIdx := 2, cached := [] }, .accepted 2 [32]) := by
  rfl

end C06

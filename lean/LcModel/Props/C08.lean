import LcModel.Sync.Lemmas
/-!
# C08 — a crash at any storage write loses no script activity

Subject: the write sequences `Sync.opWrites` of `set_scripts`, a block-filter batch and the
completion of a matched-blocks record, tied to the code by `./check C08`: the sequence of write
sites of every operation, and — for a crash injected in front of every store write — the store
after the restart against the model after the same prefix of writes.

The theorems are about the filter-sync state (scripts, min filtered number, matched-blocks
records, index).  Fork rollback, the tip update, check point finalization and first-run
initialisation are exercised by the crash enumeration of the check only (see DESIGN.md).
-/
namespace C08
open Sync

/-- **C08, one write boundary**: the invariant holds after every prefix of the writes of every
operation — whatever write the process dies in front of, the reopened store (the in-memory state
is rebuilt from it) is one from which nothing has been skipped -/
theorem inv_prefix (touches : Nat → Nat → Bool) (g : G) (op : Op) (j : Nat)
    (hi : Inv touches g) (ho : OpOk touches g op) : Inv touches (stepG g op j) := by
  sorry

/-- **C08, every history with crashes anywhere** -/
theorem inv_run_crashes (touches : Nat → Nat → Bool) (g : G) (h : List (Op × Option Nat))
    (hi : Inv touches g) (ho : HistOk touches g h) : Inv touches (runG touches g h) := by
  sorry

/-- after any history with crashes, continued syncing that reaches `tip` with no record pending
has indexed every block that touches a registered script above its registration number: the same
answer as a run without the crash -/
theorem converges_to_the_same_index (touches : Nat → Nat → Bool) (g : G)
    (h : List (Op × Option Nat)) (hi : Inv touches g) (ho : HistOk touches g h)
    (tip : Nat) (hdone : (runG touches g h).p.records = []) (htip : tip ≤ (runG touches g h).p.minF)
    (s n b : Nat) (hs : (s, n) ∈ (runG touches g h).p.scripts) (ht : touches s b = true)
    (hlo : (runG touches g h).lo s < b) (hb : b ≤ tip) :
    (s, b) ∈ (runG touches g h).p.indexed := by
  sorry

/-! ## the write orders before the repairs lose activity -/

/-- `SendBlock` as it was (before 0391cb4): the record is deleted first -/
def oldBlocksWrites (p : P) : List W :=
  match p.records with
  | [] => []
  | r :: _ => [.delRecord r.start] ++ (r.matched.map W.filterBlock) ++ [.updateBlockNumber (r.start + r.count - 1)]

/-- a crash after the first write: block 5 is neither indexed nor pending, and below `minF` -/
theorem old_sendblock_order_loses :
    let touches : Nat → Nat → Bool := fun s b => s == 1 && b == 5
    let g : G := ⟨⟨[(1, 0)], 10, [⟨1, 10, [5]⟩], []⟩, fun _ => 0⟩
    Inv touches g ∧
    let p' := applyWs g.p ((oldBlocksWrites g.p).take 1)
    ¬ Inv touches ⟨p', g.lo⟩ := by
  sorry

/-- `update_filter_scripts` as it was (before 704dab0): three separate writes -/
def oldSetWrites (scripts : List (Nat × Nat)) (target : Nat) : List W :=
  [.putScripts scripts, .putMinF target, .clearRecords]

/-- a crash after the scripts batch: script 2 is registered from 3 while `minF` stays 10 -/
theorem old_set_scripts_writes_lose :
    let touches : Nat → Nat → Bool := fun s b => s == 2 && b == 5
    let g : G := ⟨⟨[(1, 10)], 10, [], []⟩, fun _ => 0⟩
    Inv touches g ∧
    let p' := applyWs g.p ((oldSetWrites [(1, 10), (2, 3)] 3).take 1)
    ¬ Inv touches ⟨p', fun s => if s = 2 then 3 else 0⟩ := by
  sorry

/-! ## non-vacuity -/

/-- a crash in the middle of a record completion: the premises hold, the prefix is proper -/
example :
    let touches : Nat → Nat → Bool := fun s b => s == 1 && b == 5
    let g : G := ⟨⟨[(1, 0)], 10, [⟨1, 10, [5]⟩], []⟩, fun _ => 0⟩
    Inv touches g ∧ OpOk touches g .blocks ∧ (opWrites g.p .blocks).length = 3 ∧
    (stepG g .blocks 1).p.records ≠ [] ∧ (1, 5) ∈ (stepG g .blocks 1).p.indexed := by
  sorry

end C08

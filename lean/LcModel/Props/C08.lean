import LcModel.Sync.Lemmas
/-!
# C08 — a crash at any storage write loses no script activity

Subject: the write sequences `Sync.opWrites` of `set_scripts`, a block-filter batch and the
completion of a matched-blocks record, tied to the code by `./check C08`: the sequence of write
sites of every operation, and — for a crash injected in front of every store write — the store
after the restart against the model after the same prefix of writes.

The theorems are about the filter-sync state (scripts, min filtered number, matched-blocks
records, index).  Fork rollback, the tip update, check point finalization and first-run
initialisation are exercised by the crash enumeration of the check only (see DESIGN.md).
-/
namespace C08
open Sync

/-- **C08, one write boundary**: the invariant holds after every prefix of the writes of every
operation — whatever write the process dies in front of, the reopened store (the in-memory state
is rebuilt from it) is one from which nothing has been skipped -/
theorem inv_prefix (touches : Nat → Nat → Bool) (g : G) (op : Op) (j : Nat)
    (hi : Inv touches g) (ho : OpOk touches g op) : Inv touches (stepG g op j) := by
  exact inv_stepG touches g op j hi ho

/-- **C08, every history with crashes anywhere** -/
theorem inv_run_crashes (touches : Nat → Nat → Bool) (g : G) (h : List (Op × Option Nat))
    (hi : Inv touches g) (ho : HistOk touches g h) : Inv touches (runG touches g h) := by
  exact inv_runG touches h g hi ho

/-- after any history with crashes, continued syncing that reaches `tip` with no record pending
has indexed every block that touches a registered script above its registration number: the same
answer as a run without the crash -/
theorem converges_to_the_same_index (touches : Nat → Nat → Bool) (g : G)
    (h : List (Op × Option Nat)) (hi : Inv touches g) (ho : HistOk touches g h)
    (tip : Nat) (hdone : (runG touches g h).p.records = []) (htip : tip ≤ (runG touches g h).p.minF)
    (s n b : Nat) (hs : (s, n) ∈ (runG touches g h).p.scripts) (ht : touches s b = true)
    (hlo : (runG touches g h).lo s < b) (hb : b ≤ tip) :
    (s, b) ∈ (runG touches g h).p.indexed := by
  exact indexed_of_done (inv_runG touches h g hi ho) hdone hs ht hlo (Nat.le_trans hb htip)

/-! ## the write orders before the repairs lose activity -/

/-- `SendBlock` as it was (before 0391cb4): the record is deleted first -/
def oldBlocksWrites (p : P) : List W :=
  match p.records with
  | [] => []
  | r :: _ => [.delRecord r.start] ++ (r.matched.map W.filterBlock) ++ [.updateBlockNumber (r.start + r.count - 1)]

/-- a crash after the first write: block 5 is neither indexed nor pending, and below `minF` -/
theorem old_sendblock_order_loses :
    let touches : Nat → Nat → Bool := fun s b => s == 1 && b == 5
    let g : G := ⟨⟨[(1, 0)], 10, [⟨1, 10, [5]⟩], []⟩, fun _ => 0⟩
    Inv touches g ∧
    let p' := applyWs g.p ((oldBlocksWrites g.p).take 1)
    ¬ Inv touches ⟨p', g.lo⟩ := by
  intro touches g
  refine ⟨inv_example_pending, ?_⟩
  intro p' h
  have hc := h.cover (1, 0) (by decide) 5 (by decide) (by decide) (by decide)
  rcases hc with hc | ⟨r, hr, _⟩
  · exact absurd hc (by decide)
  · have hrec : p'.records = [] := by decide
    have hr' : r ∈ p'.records := hr
    rw [hrec] at hr'; cases hr'

/-- `update_filter_scripts` as it was (before 704dab0): three separate writes -/
def oldSetWrites (scripts : List (Nat × Nat)) (target : Nat) : List W :=
  [.putScripts scripts, .putMinF target, .clearRecords]

/-- a crash after the scripts batch: script 2 is registered from 3 while `minF` stays 10 -/
theorem old_set_scripts_writes_lose :
    let touches : Nat → Nat → Bool := fun s b => s == 2 && b == 5
    let g : G := ⟨⟨[(1, 10)], 10, [], []⟩, fun _ => 0⟩
    Inv touches g ∧
    let p' := applyWs g.p ((oldSetWrites [(1, 10), (2, 3)] 3).take 1)
    ¬ Inv touches ⟨p', fun s => if s = 2 then 3 else 0⟩ := by
  intro touches g
  refine ⟨inv_example_idle, ?_⟩
  intro p' h
  have hc := h.cover (2, 3) (by decide) 5 (by decide) (by decide) (by decide)
  rcases hc with hc | ⟨r, hr, _⟩
  · exact absurd hc (by decide)
  · have hrec : p'.records = [] := by decide
    have hr' : r ∈ p'.records := hr
    rw [hrec] at hr'; cases hr'

/-! ## non-vacuity -/

/-- a crash in the middle of a record completion: the premises hold, the prefix is proper -/
example :
    let touches : Nat → Nat → Bool := fun s b => s == 1 && b == 5
    let g : G := ⟨⟨[(1, 0)], 10, [⟨1, 10, [5]⟩], []⟩, fun _ => 0⟩
    Inv touches g ∧ OpOk touches g .blocks ∧ (opWrites g.p .blocks).length = 3 ∧
    (stepG g .blocks 1).p.records ≠ [] ∧ (1, 5) ∈ (stepG g .blocks 1).p.indexed := by
  intro touches g
  exact ⟨inv_example_pending, trivial, by decide, by decide, by decide⟩

end C08

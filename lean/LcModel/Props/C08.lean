import LcModel.Sync.LemmasFork
import LcModel.Meta.Lemmas
/-!
# C08 — a crash at any storage write loses no script activity

Subject: the write sequences `Sync.opWrites` of `set_scripts`, a block-filter batch and the
completion of a matched-blocks record, tied to the code by `./check C08`: the sequence of write
sites of every operation, and — for a crash injected in front of every store write — the store
after the restart against the model after the same prefix of writes.

The theorems are about the filter-sync state (scripts, min filtered number, matched-blocks
records, index), including the fork rollback of `commit_prove_state` (`Sync.forkWrites`: the chain
itself changes there, the invariant is carried from the old chain to the new one).  The tip
update, check point finalization and first-run initialisation are modelled in the `Meta` layer
(section "the entries every start reads" below): no write boundary of theirs leaves a store the
client cannot open.
-/
namespace C08
open Sync

/-- **C08, one write boundary**: the invariant holds after every prefix of the writes of every
operation — whatever write the process dies in front of, the reopened store (the in-memory state
is rebuilt from it) is one from which nothing has been skipped -/
theorem inv_prefix (touches : Nat → Nat → Bool) (g : G) (op : Op) (j : Nat)
    (hi : Inv touches g) (ho : OpOk touches g op) : Inv touches (stepG g op j) := by
  exact inv_stepG touches g op j hi ho

/-- **C08, every history with crashes anywhere** -/
theorem inv_run_crashes (touches : Nat → Nat → Bool) (g : G) (h : List (Op × Option Nat))
    (hi : Inv touches g) (ho : HistOk touches g h) : Inv touches (runG touches g h) := by
  exact inv_runG touches h g hi ho

/-- after any history with crashes, continued syncing that reaches `tip` with no record pending
has indexed every block that touches a registered script above its registration number: the same
answer as a run without the crash -/
theorem converges_to_the_same_index (touches : Nat → Nat → Bool) (g : G)
    (h : List (Op × Option Nat)) (hi : Inv touches g) (ho : HistOk touches g h)
    (tip : Nat) (hdone : (runG touches g h).p.records = []) (htip : tip ≤ (runG touches g h).p.minF)
    (s n b : Nat) (hs : (s, n) ∈ (runG touches g h).p.scripts) (ht : touches s b = true)
    (hlo : (runG touches g h).lo s < b) (hb : b ≤ tip) :
    (s, b) ∈ (runG touches g h).p.indexed := by
  exact indexed_of_done (inv_runG touches h g hi ho) hdone hs ht hlo (Nat.le_trans hb htip)

/-! ## the fork rollback -/

/-- **C08 / C04, the completed fork handling**: if no retained record reaches beyond the fork
point `f` (the known finding otherwise) the store after the fork handling satisfies the invariant
for the NEW chain `touches'`, which shares the blocks up to `f` with the old one: every block at or
below the fork point that was indexed, pending or still to be filtered is so still, nothing above
it is claimed, and filter sync resumes at or below it -/
theorem fork_keeps_invariant (touches touches' : Nat → Nat → Bool) (g : G) (f : Nat)
    (hi : Inv touches g) (hns : NoSpan g.p f) (hnc : NoClaimInRetained g.p g.lo f)
    (hag : Agree f touches touches') :
    Inv touches' ⟨applyWs g.p (forkWrites g.p f), g.lo⟩ := by
  obtain ⟨p, lo⟩ := g
  exact inv_fork hi hns hnc hag

/-- **a crash in front of the write of the fork handling** (ONE batch since the repair: the
deletion of the records above the fork point and the rollback): the store is untouched, the
invariant of the chain the client was on holds in full — whichever chain the restarted client
follows, nothing has been forgotten -/
theorem fork_crash_keeps_invariant (touches : Nat → Nat → Bool) (g : G) (f j : Nat)
    (hi : Inv touches g) (hns : NoSpan g.p f) (hnc : NoClaimInRetained g.p g.lo f) :
    Inv touches ⟨applyWs g.p ((forkWrites g.p f).take j), g.lo⟩ := by
  obtain ⟨p, lo⟩ := g
  exact fork_prefix_inv hi hns hnc j

/-- the fork handling is atomic: before or after, nothing in between -/
theorem fork_is_atomic (p : P) (f j : Nat) :
    applyWs p ((forkWrites p f).take j) = p ∨
      applyWs p ((forkWrites p f).take j) = applyWs p (forkWrites p f) :=
  fork_atomic p f j

/-- the fork handling BEFORE the repair (the records above the fork point deleted one by one,
then the rollback batch): a crash in between kept the invariant only for the blocks at or below
the fork point, all the two chains share -/
theorem old_fork_crash_keeps_shared_part_only (touches : Nat → Nat → Bool) (g : G) (f j : Nat)
    (hi : Inv touches g) (hns : NoSpan g.p f) (hnc : NoClaimInRetained g.p g.lo f) :
    Inv (below f touches) ⟨applyWs g.p ((oldForkWrites g.p f).take j), g.lo⟩ := by
  obtain ⟨p, lo⟩ := g
  exact old_fork_prefix_below hi hns hnc j

/-- **crash, restart, the same fork again**: the stored tip is written after the fork handling,
so the restarted client detects the same fork; the second fork handling ends in exactly the store
of an uninterrupted one, wherever the first one died (`j ≥` the number of writes: it had
completed — the handling is idempotent) -/
theorem fork_crash_then_refork (p : P) (f j : Nat) :
    let pj := applyWs p ((forkWrites p f).take j)
    applyWs pj (forkWrites pj f) = applyWs p (forkWrites p f) :=
  refork_after_crash p f j

/-- **every history of operations, crashes anywhere and reorganisations** (each fork handling
interrupted by any number of crashes before it completes) keeps the invariant for the chain of
the moment -/
theorem inv_run_with_forks (evs : List Ev) (touches : Nat → Nat → Bool) (g : G)
    (hi : Inv touches g) (ho : EvsOk touches g evs) :
    Inv (runEv touches g evs).1 (runEv touches g evs).2 :=
  inv_runEv evs touches g hi ho

/-- after any such history, continued syncing that reaches `tip` with no record pending has
indexed every block of the FINAL chain that touches a registered script above its registration
number -/
theorem converges_after_forks (evs : List Ev) (touches : Nat → Nat → Bool) (g : G)
    (hi : Inv touches g) (ho : EvsOk touches g evs) (tip : Nat)
    (hdone : (runEv touches g evs).2.p.records = []) (htip : tip ≤ (runEv touches g evs).2.p.minF)
    (s n b : Nat) (hs : (s, n) ∈ (runEv touches g evs).2.p.scripts)
    (ht : (runEv touches g evs).1 s b = true)
    (hlo : (runEv touches g evs).2.lo s < b) (hb : b ≤ tip) :
    (s, b) ∈ (runEv touches g evs).2.p.indexed :=
  indexed_of_done (inv_runEv evs touches g hi ho) hdone hs ht hlo (Nat.le_trans hb htip)

/-- **the defect this model found** (repaired: the fork handling is one batch now).  With the
deletions of the records above the fork point as writes of their own: script 1 waits for block 12
(record from 11); the chain forks at 10; the process dies after the deletion of the record, in
front of the rollback batch.  If the restarted client then follows the OLD chain after all (the
reorganisation was reorganised away meanwhile: no fork is detected, no rollback happens), block 12
is neither indexed nor pending and lies below the min filtered number: its activity is lost.
Reproduced on the code by `./check C08` (growth-then-fork histories, crash inside the fork
handling, the old branch wins: `C08|history-missing`), see DESIGN.md 10.17. -/
theorem old_fork_crash_then_old_chain_loses :
    let touches : Nat → Nat → Bool := fun s b => s == 1 && b == 12
    let g : G := ⟨⟨[(1, 0)], 14, [⟨11, 4, [12]⟩], []⟩, fun _ => 0⟩
    Inv touches g ∧
    let p' := applyWs g.p ((oldForkWrites g.p 10).take 1)
    p'.records = [] ∧ p'.minF = 14 ∧ ¬ Inv touches ⟨p', g.lo⟩ := by
  intro touches g
  refine ⟨?_, ?_⟩
  · refine ⟨by decide, ?_, ?_, ?_, ?_, ?_, ?_⟩
    · intro e he b ht hlo hb
      have he' : e = (1, 0) := by simpa [g] using he
      subst he'
      simp at hb hlo; omega
    · intro e he b ht _ hlt hb
      have he' : e = (1, 0) := by simpa [g] using he
      subst he'
      have hb12 : b = 12 := by simpa [touches] using ht
      subst hb12
      exact Or.inr ⟨⟨11, 4, [12]⟩, by simp [g], by simp⟩
    · intro r hr e he b h1 h2 ht _ hlt
      have hr' : r = ⟨11, 4, [12]⟩ := by simpa [g] using hr
      subst hr'
      have he' : e = (1, 0) := by simpa [g] using he
      subst he'
      have hb12 : b = 12 := by simpa [touches] using ht
      subst hb12
      simp
    · simp [g]
    · intro r hr b hb
      have hr' : r = ⟨11, 4, [12]⟩ := by simpa [g] using hr
      subst hr'
      have : b = 12 := by simpa using hb
      subst this
      simp
    · intro r hr
      have hr' : r = ⟨11, 4, [12]⟩ := by simpa [g] using hr
      subst hr'
      simp [g]
  · intro p'
    refine ⟨by decide, by decide, ?_⟩
    intro h
    have hc := h.cover (1, 0) (by decide) 12 (by decide) (by decide) (by decide) (by decide)
    rcases hc with hc | ⟨r, hr, _⟩
    · exact absurd hc (by decide)
    · have hrec : p'.records = [] := by decide
      have hr' : r ∈ p'.records := hr
      rw [hrec] at hr'; cases hr'

/-- non-vacuity: script 1 waits for block 5 (record from 1) and for block 12 (record from 11);
the chain forks at 10: the premises hold, the second record goes, the first stays, filter sync
resumes at 2 -/
example :
    let touches : Nat → Nat → Bool := fun s b => s == 1 && (b == 5 || b == 12)
    let touches' : Nat → Nat → Bool := fun s b => s == 1 && (b == 5 || b == 11)
    let p : P := ⟨[(1, 0)], 14, [⟨1, 10, [5]⟩, ⟨11, 4, [12]⟩], []⟩
    NoSpan p 10 ∧ NoClaimInRetained p (fun _ => 0) 10 ∧ Agree 10 touches touches' ∧
    (applyWs p (forkWrites p 10)).records = [⟨1, 10, [5]⟩] ∧
    (applyWs p (forkWrites p 10)).minF = 1 ∧ (forkWrites p 10).length = 1 ∧
    (oldForkWrites p 10).length = 2 := by
  intro touches touches' p
  refine ⟨?_, ?_, ?_, by decide, by decide, by decide, by decide⟩
  · intro r hr hle
    simp [p] at hr
    rcases hr with rfl | rfl <;> simp at hle ⊢
  · intro r hr hle e he b h1 h2 h3 h4 h5
    simp [p] at he; subst he
    simp at h4 h5; omega
  · intro s b hb
    simp only [touches, touches']
    have h1 : (b == 12) = false := by simp; omega
    have h2 : (b == 11) = false := by simp; omega
    rw [h1, h2]

/-! ## the entries every start reads (Meta layer) -/
section startup
open Meta

/-- **no state from which the client aborts on every start**: the genesis entry, the last state,
the remembered headers, the min filtered number, the max check point index and every check point
up to it are present after every PREFIX of the writes of a tip update (`update_last_state`: two
puts), of the storage part of a check point finalization (the batch of new check points, then the
index) and of a restart (`init_genesis_block` writes nothing when the genesis entry exists) -/
theorem startup_entries_survive_every_write (s : S) (op : Meta.Op) (j : Nat) (h : Openable s) :
    Openable (Meta.step s op j) :=
  openable_step h op j

/-- … and along every history of those operations cut at any write boundary -/
theorem startup_entries_survive_every_history (hist : List (Meta.Op × Option Nat)) (s : S)
    (h : Openable s) : Openable (Meta.run s hist) :=
  openable_run hist s h

/-- the first start writes ONE batch: whatever it dies in front of, the store is still empty (the
next start initialises it) or complete -/
theorem first_start_is_atomic (g c j : Nat) :
    Meta.step Meta.empty (.init g c) j = Meta.empty ∨ Openable (Meta.step Meta.empty (.init g c) j) :=
  first_start g c j

/-- the initialisation as it was before 0751088 wrote the genesis entry first and the other
entries one by one: after a crash behind the first write the store cannot be opened, and no later
start repairs it (the genesis entry is there, `init_genesis_block` writes nothing) -/
theorem old_init_order_bricks :
    let s := Meta.applyWs Meta.empty [.putGenesis 7]
    ¬ Openable s ∧ Meta.opWrites s (.init 7 9) = [] := by
  intro s
  refine ⟨fun h => ?_, by decide⟩
  have := h.lastState
  revert this
  decide

/-- the order `index first, check points second` (a seeded change of the fifth round): after a
crash between the two writes the check point at the stored index is missing:
`get_last_check_point` aborts at every start -/
theorem index_before_check_points_bricks :
    let s : S := ⟨some 7, some (0, 7), some [], some 0, [(0, 9)], some 0⟩
    Openable s ∧
    let s' := Meta.applyWs s ([W.putMaxCp 2, W.putCps 1 [4, 5]].take 1)
    ¬ Openable s' := by
  intro s
  constructor
  · refine ⟨rfl, rfl, rfl, rfl, rfl, ?_⟩
    intro m hm i hi
    have : m = 0 := by
      have : some 0 = some m := hm
      exact (Option.some.inj this).symm
    subst this
    have : i = 0 := by omega
    subst this
    decide
  · intro s' h
    have := h.dense 2 rfl 2 (Nat.le_refl _)
    revert this
    decide

/-- non-vacuity: a finalization of two check points cut after its first write -/
example :
    let s : S := ⟨some 7, some (0, 7), some [], some 0, [(0, 9)], some 0⟩
    (Meta.opWrites s (.fin [4, 5])).length = 2 ∧
    (Meta.step s (.fin [4, 5]) 1).maxCp = some 0 ∧ Meta.cpAt (Meta.step s (.fin [4, 5]) 1) 2 = some 5 ∧
    (Meta.step s (.fin [4, 5]) 2).maxCp = some 2 := by
  decide

end startup

/-! ## the write orders before the repairs lose activity -/

/-- `SendBlock` as it was (before 0391cb4): the record is deleted first -/
def oldBlocksWrites (p : P) : List W :=
  match p.records with
  | [] => []
  | r :: _ => [.delRecord r.start] ++ (r.matched.map W.filterBlock) ++ [.updateBlockNumber (r.start + r.count - 1)]

/-- a crash after the first write: block 5 is neither indexed nor pending, and below `minF` -/
theorem old_sendblock_order_loses :
    let touches : Nat → Nat → Bool := fun s b => s == 1 && b == 5
    let g : G := ⟨⟨[(1, 0)], 10, [⟨1, 10, [5]⟩], []⟩, fun _ => 0⟩
    Inv touches g ∧
    let p' := applyWs g.p ((oldBlocksWrites g.p).take 1)
    ¬ Inv touches ⟨p', g.lo⟩ := by
  intro touches g
  refine ⟨inv_example_pending, ?_⟩
  intro p' h
  have hc := h.cover (1, 0) (by decide) 5 (by decide) (by decide) (by decide) (by decide)
  rcases hc with hc | ⟨r, hr, _⟩
  · exact absurd hc (by decide)
  · have hrec : p'.records = [] := by decide
    have hr' : r ∈ p'.records := hr
    rw [hrec] at hr'; cases hr'

/-- `update_filter_scripts` as it was (before 704dab0): three separate writes -/
def oldSetWrites (scripts : List (Nat × Nat)) (target : Nat) : List W :=
  [.putScripts scripts, .putMinF target, .clearRecords]

/-- a crash after the scripts batch: script 2 is registered from 3 while `minF` stays 10 -/
theorem old_set_scripts_writes_lose :
    let touches : Nat → Nat → Bool := fun s b => s == 2 && b == 5
    let g : G := ⟨⟨[(1, 10)], 10, [], []⟩, fun _ => 0⟩
    Inv touches g ∧
    let p' := applyWs g.p ((oldSetWrites [(1, 10), (2, 3)] 3).take 1)
    ¬ Inv touches ⟨p', fun s => if s = 2 then 3 else 0⟩ := by
  intro touches g
  refine ⟨inv_example_idle, ?_⟩
  intro p' h
  have hc := h.cover (2, 3) (by decide) 5 (by decide) (by decide) (by decide) (by decide)
  rcases hc with hc | ⟨r, hr, _⟩
  · exact absurd hc (by decide)
  · have hrec : p'.records = [] := by decide
    have hr' : r ∈ p'.records := hr
    rw [hrec] at hr'; cases hr'

/-! ## non-vacuity -/

/-- a crash in the middle of a record completion: the premises hold, the prefix is proper -/
example :
    let touches : Nat → Nat → Bool := fun s b => s == 1 && b == 5
    let g : G := ⟨⟨[(1, 0)], 10, [⟨1, 10, [5]⟩], []⟩, fun _ => 0⟩
    Inv touches g ∧ OpOk touches g .blocks ∧ (opWrites g.p .blocks).length = 3 ∧
    (stepG g .blocks 1).p.records ≠ [] ∧ (1, 5) ∈ (stepG g .blocks 1).p.indexed := by
  intro touches g
  exact ⟨inv_example_pending, trivial, by decide, by decide, by decide⟩

end C08

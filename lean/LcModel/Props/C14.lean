import LcModel.Difficulty.Model
/-!
# C14 — property theorems (difficulty checks)
-/
namespace C14
open Difficulty

/-- Witness (pinned tree): a legal history `D,2D,4D,4D,2D` (tau = 2) is rejected by the upper
limit when the exponent `k` of the band's lower end is used for the `Max` path. -/
theorem witness_pinned_incomplete_max :
    checkLimit (Trend.new 40 80) .max 4 0 (80 + 160 + 160) 40 2 0 = .ok false := by rfl

end C14

import LcModel.Difficulty.Lemmas
/-!
# C14 — difficulty checks accept every legal difficulty history and bound illegal ones

Property theorems only; helper lemmas live in `LcModel/Difficulty/Lemmas.lean`.
Subject: `Difficulty.verifyTotalDifficulty` / `Difficulty.verifyTau`, the Lean model of
`verify_total_difficulty` / `verify_tau` (`send_last_state_proof.rs`), tied to the code by the
function-level correspondence of `./check C14`.
-/
namespace C14
open Difficulty

/-- Consecutive epoch difficulties obey the per-epoch adjustment bound `tau`
(`a / tau ≤ b ≤ a * tau`, stated without division). -/
def Legal (tau : Nat) : List Nat → Prop
  | a :: b :: rest => a ≤ tau * b ∧ b ≤ tau * a ∧ Legal tau (b :: rest)
  | _ => True

/-- `Σ_{i=1..c} ⌊x / tau^i⌋` — the accumulated difficulty of `c` epochs on the steepest legal
descent from epoch difficulty `x`. -/
def divSum (tau : Nat) : Nat → Nat → Nat
  | 0, _ => 0
  | c+1, x => x / tau + divSum tau c (x / tau)

/-- `Σ_{i=1..c} x * tau^i` — the steepest legal ascent. -/
def mulSum (tau : Nat) : Nat → Nat → Nat
  | 0, _ => 0
  | c+1, x => x * tau + mulSum tau c (x * tau)

/-- The part of the accumulated difficulty that lies in the (partial) start and end epochs:
blocks after the start block in its epoch, and blocks up to the end block in its epoch. -/
def unalignedOf (sb eb : Nat) (se ee : Epoch) : Nat :=
  sb * (se.length - (se.index + 1)) + eb * (ee.index + 1)

/-! ## bridges to the helper definitions of `LcModel/Difficulty/Lemmas.lean` -/

theorem legal_iff_leg (tau : Nat) : ∀ l : List Nat, Legal tau l ↔ Leg tau l
  | [] => Iff.rfl
  | [_] => Iff.rfl
  | a :: b :: rest => by simp only [Legal, Leg, legal_iff_leg tau (b :: rest)]

theorem divSum_eq_dSum (tau c x : Nat) : divSum tau c x = dSum tau c x := by
  induction c generalizing x with
  | zero => rfl
  | succ c ih => simp only [divSum, dSum, ih]

theorem mulSum_eq_mSum (tau c x : Nat) : mulSum tau c x = mSum tau c x := by
  induction c generalizing x with
  | zero => rfl
  | succ c ih => simp only [mulSum, mSum, ih]

/-! ## never abort -/

/-- **C14 (never abort).** For every start/end epoch, compact target and total difficulty —
any natural numbers, in particular every value of the machine types — the total-difficulty
check returns a verdict; no arithmetic of the model (which panics exactly where the Rust code
does) fails.  `verifyTau` is a total function without a panic path by construction. -/
theorem no_abort (se ee : Epoch) (sc st ec et tau : Nat) :
    ∃ r, verifyTotalDifficulty se sc st ee ec et tau = .ok r := by
  exact verify_total se ee sc st ec et tau

/-! ## soundness: what an accepted pair of end points is bounded by -/

/-- **C14 (bounding).** If the check accepts, then: the total difficulty did not decrease; inside
one epoch it is exactly `blocks * block difficulty`; across exactly one epoch switch it is exactly
the unaligned part; and across `n ≥ 2` switches the end epoch difficulty lies within
`[⌊D_s/tau^n⌋, D_s*tau^n]` and the accumulated difficulty of the `n-1` full epochs in between
lies within the `tau`-geometric cone of the start epoch difficulty. -/
theorem sound (se ee : Epoch) (sc st ec et tau : Nat) (htau : 1 ≤ tau)
    (het : et ≤ U256_MAX)
    (h : verifyTotalDifficulty se sc st ee ec et tau = .ok .ok) :
    st ≤ et ∧
    (se.number = ee.number →
      se.index ≤ ee.index ∧ et - st = compactToDifficulty sc * (ee.index - se.index)) ∧
    (se.number ≠ ee.number →
      se.number < ee.number ∧ se.index < se.length ∧
      (ee.number - se.number = 1 →
        et - st = unalignedOf (compactToDifficulty sc) (compactToDifficulty ec) se ee) ∧
      (2 ≤ ee.number - se.number →
        let n := ee.number - se.number
        let ds := compactToDifficulty sc * se.length
        let de := compactToDifficulty ec * ee.length
        let un := unalignedOf (compactToDifficulty sc) (compactToDifficulty ec) se ee
        un ≤ et - st ∧
        divSum tau (n - 1) ds ≤ et - st - un ∧
        et - st - un ≤ mulSum tau (n - 1) ds ∧
        divIter tau n ds ≤ de ∧ de ≤ ds * tau ^ n)) := by
  obtain ⟨h0, h | h⟩ := verify_ok_inv h
  · obtain ⟨e, hi, ht⟩ := h
    exact ⟨h0, fun _ => ⟨hi, ht⟩, fun hne => absurd e hne⟩
  · obtain ⟨hlt, hds, hde, hidx, hun, k, hk, hcase⟩ := h
    refine ⟨h0, fun e => by omega, fun _ => ⟨hlt, hidx, ?_, ?_⟩⟩
    · intro h1
      rcases hcase with ⟨_, ht⟩ | ⟨hne, _⟩
      · exact ht
      · exact absurd h1 hne
    · intro h2
      rcases hcase with ⟨h1, _⟩ | ⟨_, hb⟩
      · omega
      · obtain ⟨hmin, hmax⟩ := multiBlock_eq_ok.mp hb
        obtain ⟨l1, l2⟩ := limitExponents_le (by omega) hk
        have hA : et - st ≤ U256_MAX := by omega
        obtain ⟨m1, m2⟩ := checkLimit_min_sound htau hA hds l1 (by omega) hmin
        have m3 := checkLimit_max_sound htau hA l2 (by omega) hmax
        obtain ⟨t1, t2⟩ := tauExponent_sound htau hk
        simp only [divSum_eq_dSum, mulSum_eq_mSum]
        exact ⟨m1, m2, m3, t1, t2⟩

/-! ## completeness: every legal history is accepted -/

/-- **C14 (completeness, same epoch).** -/
theorem complete_same_epoch (se ee : Epoch) (sc st ec et tau : Nat)
    (hnum : se.number = ee.number) (hidx : se.index ≤ ee.index)
    (htot : et = st + compactToDifficulty sc * (ee.index - se.index))
    (hfit : et ≤ U256_MAX) :
    verifyTotalDifficulty se sc st ee ec et tau = .ok .ok := by
  unfold verifyTotalDifficulty
  rw [if_neg (by omega : ¬ et < st)]
  dsimp only
  rw [if_pos hnum, if_neg (by omega : ¬ ee.index < se.index), if_neg (by omega),
    if_neg (by simp only [ne_eq, Decidable.not_not]; omega)]
  rfl

/-- **C14 (completeness).** Take any history of epochs obeying the adjustment bound: a start
epoch with block difficulty `sb > 0`, any number of full epochs in between with epoch
difficulties `mids`, and an end epoch with block difficulty `eb > 0`, such that consecutive epoch
difficulties are within a factor `tau` of each other.  If the end total difficulty is the start
total plus the literal sum of the block difficulties in between (and the numbers fit their
machine types), the check accepts. -/
theorem complete (se ee : Epoch) (sc st ec et tau : Nat) (mids : List Nat)
    (htau : 1 ≤ tau)
    (hsb : 0 < compactToDifficulty sc) (heb : 0 < compactToDifficulty ec)
    (hsi : se.index < se.length) (hei : ee.index < ee.length)
    (hnum : ee.number = se.number + mids.length + 1)
    (hlegal : Legal tau (compactToDifficulty sc * se.length :: mids ++
                          [compactToDifficulty ec * ee.length]))
    (hds : compactToDifficulty sc * se.length ≤ U256_MAX)
    (hde : compactToDifficulty ec * ee.length ≤ U256_MAX)
    (htot : et = st + unalignedOf (compactToDifficulty sc) (compactToDifficulty ec) se ee
                    + mids.sum)
    (hfit : et ≤ U256_MAX) :
    verifyTotalDifficulty se sc st ee ec et tau = .ok .ok := by
  have _ := hsb  -- (not needed: only the end epoch's block difficulty must be positive)
  have _ := hei
  have hleg' := (legal_iff_leg tau _).mp hlegal
  have hn : ee.number - se.number = mids.length + 1 := by omega
  obtain ⟨k, hk⟩ := tauExponent_complete htau mids hleg' hds hde
  rw [← hn] at hk
  have hpos : 0 < unalignedOf (compactToDifficulty sc) (compactToDifficulty ec) se ee :=
    Nat.lt_of_lt_of_le (Nat.mul_pos heb (Nat.succ_pos ee.index)) (Nat.le_add_left _ _)
  have hact : et - st =
      unalignedOf (compactToDifficulty sc) (compactToDifficulty ec) se ee + mids.sum := by omega
  have hA : et - st ≤ U256_MAX := by omega
  have hun : unalignedOf (compactToDifficulty sc) (compactToDifficulty ec) se ee ≤ U256_MAX := by
    omega
  obtain ⟨l1, l2⟩ := limitExponents_le (by omega) hk
  rw [verify_multi_eq (by omega) (by omega) hds hde hk hsi hun]
  by_cases h1 : ee.number - se.number = 1
  · rw [if_pos h1]
    have : mids = [] := List.length_eq_zero_iff.mp (by omega)
    subst this
    have hact' : et - st =
        unalignedOf (compactToDifficulty sc) (compactToDifficulty ec) se ee := by simpa using hact
    rw [if_neg (by simp only [ne_eq, Decidable.not_not]; exact hact')]
    rfl
  · rw [if_neg h1]
    refine multiBlock_eq_ok.mpr ⟨?_, ?_⟩
    · exact checkLimit_min_of_key htau _ mids l1 hn hleg'
        (fun inc dec hs hv _ => keyMin htau hds hde hk inc dec hs hv) hact hA hpos
    · exact checkLimit_max_of_key htau _ mids l2 hn hleg' hds
        (fun inc dec hs hv _ => keyMax htau hk inc dec hs hv) hact hA

/-- **C14 (completeness of the trend check).** The end points of a legal history pass
`verify_tau`. -/
theorem complete_tau (se ee : Epoch) (sc ec tau : Nat) (mids : List Nat)
    (htau : 1 ≤ tau)
    (hnum : ee.number = se.number + mids.length + 1)
    (hlegal : Legal tau (compactToDifficulty sc * se.length :: mids ++
                          [compactToDifficulty ec * ee.length]))
    (hds : compactToDifficulty sc * se.length ≤ U256_MAX)
    (hde : compactToDifficulty ec * ee.length ≤ U256_MAX) :
    verifyTau se sc ee ec tau = .pass := by
  have hleg' := (legal_iff_leg tau _).mp hlegal
  have hn : ee.number - se.number = mids.length + 1 := by omega
  have hc := checkTau_complete htau mids hleg' hds hde
  unfold verifyTau
  rw [if_neg (by omega : ¬ se.number = ee.number)]
  dsimp only
  rw [if_neg (by simp only [Bool.or_eq_true, decide_eq_true_eq]; omega), hn, hc]
  rfl


/-- **C14 (trend check bounds).** If `verify_tau` passes across `n ≥ 1` epoch switches, the end
epoch difficulty is within `[⌊D_s/tau^n⌋, D_s*tau^n]`; within one epoch the compact targets are
equal.  The premise `1 ≤ tau` is needed (see `tau_sound_fails_at_tau_zero`) and harmless: the
Rust constant is `TAU = 2`, asserted by the harness. -/
theorem tau_sound (se ee : Epoch) (sc ec tau : Nat) (htau : 1 ≤ tau)
    (h : verifyTau se sc ee ec tau = .pass) :
    (se.number = ee.number → sc = ec) ∧
    (se.number ≠ ee.number → se.number < ee.number ∧
      divIter tau (ee.number - se.number) (compactToDifficulty sc * se.length)
        ≤ compactToDifficulty ec * ee.length ∧
      compactToDifficulty ec * ee.length
        ≤ compactToDifficulty sc * se.length * tau ^ (ee.number - se.number)) := by
  unfold verifyTau at h
  by_cases h1 : se.number = ee.number
  · rw [if_pos h1] at h
    by_cases h2 : sc ≠ ec
    · rw [if_pos h2] at h; cases h
    · exact ⟨fun _ => Decidable.not_not.mp h2, fun hne => absurd h1 hne⟩
  · rw [if_neg h1] at h
    dsimp only at h
    split at h
    · cases h
    · rename_i h2
      simp only [Bool.or_eq_true, decide_eq_true_eq, not_or, Nat.not_lt] at h2
      split at h
      · rename_i h3
        obtain ⟨t1, t2⟩ := checkTau_sound htau h3
        exact ⟨fun e => absurd e h1, fun _ => ⟨by omega, t1, t2⟩⟩
      · cases h

/-- `tau_sound` as stated (no premise on `tau`) is false: with `tau = 0` an unchanged epoch
difficulty `8 → 8` across one switch passes `verify_tau`, but `8 ≤ 8 * 0^1` fails. -/
theorem tau_sound_fails_at_tau_zero :
    ¬ ∀ (se ee : Epoch) (sc ec tau : Nat), verifyTau se sc ee ec tau = .pass →
      (se.number = ee.number → sc = ec) ∧
      (se.number ≠ ee.number → se.number < ee.number ∧
        divIter tau (ee.number - se.number) (compactToDifficulty sc * se.length)
          ≤ compactToDifficulty ec * ee.length ∧
        compactToDifficulty ec * ee.length
          ≤ compactToDifficulty sc * se.length * tau ^ (ee.number - se.number)) := by
  intro hall
  have h := (hall ⟨0, 0, 1⟩ ⟨1, 0, 1⟩ 0x20200000 0x20200000 0 (by decide)).2 (by decide)
  exact absurd h.2.2 (by decide)

/-- `sound` without `et ≤ U256_MAX` is false: start/end epoch difficulty `2^255`, `tau = 2`, two
switches; the upper-limit total saturates, `total + unaligned` overflows and is accepted, so an
(impossible for a `U256`) accumulated difficulty of `2^257` passes although the cone ends at
`2^256`. -/
theorem sound_needs_et_bound :
    verifyTotalDifficulty ⟨0, 0, 1⟩ 0x03000002 0 ⟨2, 0, 1⟩ 0x03000002 (2 * 2 ^ 256) 2 = .ok .ok ∧
    ¬ (2 * 2 ^ 256 - 0 - unalignedOf (compactToDifficulty 0x03000002) (compactToDifficulty 0x03000002)
          ⟨0, 0, 1⟩ ⟨2, 0, 1⟩
        ≤ mulSum 2 (2 - 0 - 1) (compactToDifficulty 0x03000002 * 1)) := by
  constructor
  · rfl
  · decide

/-! ## non-vacuity and regression witnesses -/

/-- the premises of `complete` are satisfiable by a non-trivial history:
`tau = 2`, epoch difficulties `8,4,2,2,4` of one block each (the history the pinned tree
rejected on the lower side; compact `0x20200000` ↦ 8, `0x20400000` ↦ 4). -/
example : verifyTotalDifficulty ⟨7, 0, 1⟩ 0x20200000 1000 ⟨11, 0, 1⟩ 0x20400000 1012 2 = .ok .ok := by
  rfl

/-- … and the mirror history `4,8,16,16,8` the pinned tree rejected on the upper side. -/
example : verifyTotalDifficulty ⟨7, 0, 1⟩ 0x20400000 1000 ⟨11, 0, 1⟩ 0x20200000 1048 2 = .ok .ok := by
  rfl

/-- Witness kept from the pinned tree: with the exponent `k` of the band's *near* end the upper
limit rejects the legal history `40,80,160,160,80`; `verify_total_difficulty` now passes `k+1`. -/
theorem witness_near_end_exponent_incomplete :
    checkLimit (Trend.new 40 80) .max 4 0 (80 + 160 + 160) 40 2 0 = .ok false ∧
    checkLimit (Trend.new 40 80) .max 4 1 (80 + 160 + 160) 40 2 0 = .ok true := by
  constructor <;> rfl

/-- a total outside the cone is rejected (concrete instance of `sound`'s contrapositive) -/
example : verifyTotalDifficulty ⟨7, 0, 1⟩ 0x20400000 1000 ⟨11, 0, 1⟩ 0x20200000 1200 2
    = .ok .aboveUpper := by rfl

end C14

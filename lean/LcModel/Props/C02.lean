import LcModel.Proofs.Lemmas
import LcModel.Cbmt.Witness
import LcModel.Mmr.Witness
/-!
# C02 — only data committed by a proven header is ever indexed or served as fetched

Subject: `Proofs.onBlocksProof`, `Proofs.onTxsProof`, `Proofs.onBlock` (models of
`SendBlocksProofProcess::execute`, `SendTransactionsProofProcess::execute` and of the `SendBlock`
branch of `SyncProtocol::received` with `Peers::add_block`) and `Proofs.step` for all other
events, tied to the code by `./check C02` (every delivery of the attack histories - honest and
mutated - is run through both).  The verdicts of the byte-level checks (PoW, V1 extra fields,
`verify_mmr_proof` for (last header, proof, headers), the transaction Merkle proofs, and - for a
block body - "the header commits to this body") are inputs of the messages.

What "stored as fetched" means here: the records `Key::BlockHash` (`hdr`), `Key::BlockNumber`
(`num`) and `Key::TxHash` (`txr`) - `get_header`, `fetch_header`, `get_transaction`,
`fetch_transaction` answer from exactly these - and the `proved` mark of a matched block, which
is what lets its body be downloaded and indexed.

All theorems are about one step from an ARBITRARY state, hence hold along every history.
-/
namespace C02
open Proofs

/-! ## `SendBlocksProof` -/

/-- **C02 (headers).**  A `BlockHash` record changes on a `SendBlocksProof` only if the sender
has an outstanding blocks-proof request, the answer is for the requested last state, its headers
and missing hashes are the requested hashes, PoW and (V1) extra hash hold, the MMR verdict for
(requested last state, proof, headers) is true, and the header is one of the message whose hash
the user is fetching. -/
theorem blocks_proof_stores_header (cfg : Cfg) (s s' : St) (p : Nat) (m : BMsg) (code k : Nat)
    (h : onBlocksProof cfg s p m = (s', code)) (hk : s'.hdr k ≠ s.hdr k) :
    code = OK ∧ ∃ req, slotB s p = some req ∧ AcceptedB req m ∧
      (∃ hd ∈ m.headers, hd.hash = k) ∧ (s.fh k).isSome = true ∧ s'.fh k = none := by
  rcases onBlocksProof_cases cfg s s' p m code h with
    ⟨_, s1, hs1, rfl⟩ | ⟨hc, req, s1, hconn, hreq, rfl, hcase⟩
  · exfalso; apply hk
    rcases hs1 with rfl | ⟨_, rfl⟩
    · rfl
    · simp [(markPeerH_frame s p).2.2.2.2.2.1]
  · rcases hcase with ⟨_, rfl⟩ | ⟨_, _, rfl⟩ | ⟨_, hacc, rfl⟩
    · exact absurd rfl hk
    · exact absurd rfl hk
    · refine ⟨hc, req, by simp [slotB, hconn, hreq], hacc, ?_⟩
      rcases bpAccept_hdr cfg s req m k with h1 | ⟨hd, hm, hkk, hs, hf, _⟩
      · exact absurd h1 hk
      · exact ⟨⟨hd, hm, hkk⟩, hs, hf⟩

/-- the same for the `BlockNumber` records -/
theorem blocks_proof_stores_number (cfg : Cfg) (s s' : St) (p : Nat) (m : BMsg) (code n : Nat)
    (h : onBlocksProof cfg s p m = (s', code)) (hn : s'.num n ≠ s.num n) :
    code = OK ∧ ∃ req, slotB s p = some req ∧ AcceptedB req m ∧
      ∃ hd ∈ m.headers, hd.number = n ∧ (s.fh hd.hash).isSome = true ∧ s'.num n = some hd.hash := by
  rcases onBlocksProof_cases cfg s s' p m code h with
    ⟨_, s1, hs1, rfl⟩ | ⟨hc, req, s1, hconn, hreq, rfl, hcase⟩
  · exfalso; apply hn
    rcases hs1 with rfl | ⟨_, rfl⟩
    · rfl
    · simp [(markPeerH_frame s p).2.2.2.2.2.2.1]
  · rcases hcase with ⟨_, rfl⟩ | ⟨_, _, rfl⟩ | ⟨_, hacc, rfl⟩
    · exact absurd rfl hn
    · exact absurd rfl hn
    · refine ⟨hc, req, by simp [slotB, hconn, hreq], hacc, ?_⟩
      rcases bpAccept_num cfg s req m n with h1 | h1
      · exact absurd h1 hn
      · exact h1

/-- what is stored is the header of the message (the extension only from a V1 answer) -/
theorem blocks_proof_stored_value (cfg : Cfg) (s s' : St) (p : Nat) (m : BMsg) (code k : Nat)
    (h : onBlocksProof cfg s p m = (s', code)) (hk : s'.hdr k ≠ s.hdr k) :
    ∃ hd ∈ m.headers, hd.hash = k ∧ ∃ e, s'.hdr k = some ⟨k, hd.number, e⟩ ∧
      (cfg.keepExt = false → e = if m.v1 then hd.ext else none) := by
  rcases onBlocksProof_cases cfg s s' p m code h with
    ⟨_, s1, hs1, rfl⟩ | ⟨hc, req, s1, hconn, hreq, rfl, hcase⟩
  · exfalso; apply hk
    rcases hs1 with rfl | ⟨_, rfl⟩
    · rfl
    · simp [(markPeerH_frame s p).2.2.2.2.2.1]
  · rcases hcase with ⟨_, rfl⟩ | ⟨_, _, rfl⟩ | ⟨_, hacc, rfl⟩
    · exact absurd rfl hk
    · exact absurd rfl hk
    · rcases bpAccept_hdr cfg s req m k with h1 | ⟨hd, hm, hkk, _, _, e, he⟩
      · exact absurd h1 hk
      · exact ⟨hd, hm, hkk, e, he⟩

/-- a blocks proof never touches the transaction records -/
theorem blocks_proof_keeps_txs (cfg : Cfg) (s s' : St) (p : Nat) (m : BMsg) (code : Nat)
    (h : onBlocksProof cfg s p m = (s', code)) : s'.txr = s.txr := by
  rcases onBlocksProof_cases cfg s s' p m code h with
    ⟨_, s1, hs1, rfl⟩ | ⟨hc, req, s1, hconn, hreq, rfl, hcase⟩
  · rcases hs1 with rfl | ⟨_, rfl⟩
    · rfl
    · simp [(markPeerH_frame s p).2.2.2.2.2.2.2.1]
  · rcases hcase with ⟨_, rfl⟩ | ⟨_, _, rfl⟩ | ⟨_, hacc, rfl⟩
    · rfl
    · rfl
    · exact (bpAccept_frame cfg s req m).2.2.2.2.1

/-- **C02 (matched blocks).**  The matched blocks stay the same blocks with the same bodies, and
one is newly marked proved only by an accepted answer to a request of the filter pipeline
(`should_get_blocks`) that lists its header. -/
theorem blocks_proof_marks_proved (cfg : Cfg) (s s' : St) (p : Nat) (m : BMsg) (code : Nat)
    (h : onBlocksProof cfg s p m = (s', code)) :
    s'.mb.map (·.hash) = s.mb.map (·.hash) ∧ s'.mb.map (·.body) = s.mb.map (·.body) ∧
    ∀ e' ∈ s'.mb, e'.proved = true →
      (∃ e ∈ s.mb, e.hash = e'.hash ∧ e.proved = true) ∨
      (code = OK ∧ ∃ req, slotB s p = some req ∧ req.getBlocks = true ∧ AcceptedB req m ∧
        ∃ hd ∈ m.headers, hd.hash = e'.hash) := by
  have triv : ∀ l : List MEntry, ∀ e' ∈ l, e'.proved = true →
      (∃ e ∈ l, e.hash = e'.hash ∧ e.proved = true) ∨
      (code = OK ∧ ∃ req, slotB s p = some req ∧ req.getBlocks = true ∧ AcceptedB req m ∧
        ∃ hd ∈ m.headers, hd.hash = e'.hash) := fun l e' he' hp => Or.inl ⟨e', he', rfl, hp⟩
  rcases onBlocksProof_cases cfg s s' p m code h with
    ⟨_, s1, hs1, rfl⟩ | ⟨hc, req, s1, hconn, hreq, rfl, hcase⟩
  · rcases hs1 with rfl | ⟨_, rfl⟩
    · exact ⟨rfl, rfl, triv _⟩
    · simp only [(markPeerH_frame s p).2.2.2.2.1]; exact ⟨trivial, trivial, triv _⟩
  · rcases hcase with ⟨_, rfl⟩ | ⟨_, _, rfl⟩ | ⟨_, hacc, rfl⟩
    · exact ⟨rfl, rfl, triv _⟩
    · exact ⟨rfl, rfl, triv _⟩
    · simp only
      rcases (bpAccept_frame cfg s req m).2.2.2.2.2 with hm | ⟨hg, hm⟩
      · rw [hm]; exact ⟨rfl, rfl, triv _⟩
      · rw [hm]
        refine ⟨markProved_hash _ _, markProved_body _ _, ?_⟩
        intro e' he' hp
        obtain ⟨e, he, hh, _, hpr, _⟩ := markProved_mem _ _ e' he'
        rcases hpr hp with hpe | hin
        · exact Or.inl ⟨e, he, hh.symm, hpe⟩
        · right
          refine ⟨hc, req, by simp [slotB, hconn, hreq], hg, hacc, ?_⟩
          rw [List.mem_map] at hin
          obtain ⟨hd, hdm, hdh⟩ := hin
          exact ⟨hd, hdm, hdh.trans hh.symm⟩

/-- when the requested hashes are distinct (they are the keys of a hash map), the headers of an
accepted answer are requested hashes: "requested from that peer" -/
theorem accepted_headers_requested (req : BReq) (m : BMsg) (ha : AcceptedB req m)
    (hn : req.hashes.Nodup) : ∀ hd ∈ m.headers, hd.hash ∈ req.hashes := by
  intro hd hm
  exact checkHashes_sub _ _ _ ha.matched hn _ (Or.inl (List.mem_map.2 ⟨hd, hm, rfl⟩))

/-- **C02 (rejected answers).**  A `SendBlocksProof` that is not accepted changes nothing but
the sender's request slot (and, in the repaired variant, the time-out flags of its fetches). -/
theorem blocks_proof_rejected_unchanged (cfg : Cfg) (s s' : St) (p : Nat) (m : BMsg) (code : Nat)
    (h : onBlocksProof cfg s p m = (s', code)) (hc : code ≠ OK) :
    s'.hdr = s.hdr ∧ s'.num = s.num ∧ s'.txr = s.txr ∧ s'.mb = s.mb ∧ s'.ft = s.ft ∧
    s'.conn = s.conn ∧ s'.treq = s.treq ∧ (∀ q, q ≠ p → s'.breq q = s.breq q) ∧
    (cfg.markOnReject = false → s'.fh = s.fh) ∧
    (∀ k, (s'.fh k).isSome = (s.fh k).isSome) := by
  rcases onBlocksProof_cases cfg s s' p m code h with
    ⟨_, s1, hs1, rfl⟩ | ⟨hc', _⟩
  · have hb : ∀ (s1 : St) (q : Nat), q ≠ p →
        (if s1.conn p = true then upd s1.breq p none else s1.breq) q = s1.breq q := by
      intro s1 q hq; split <;> simp [upd_apply, hq]
    rcases hs1 with rfl | ⟨hmr, rfl⟩
    · exact ⟨rfl, rfl, rfl, rfl, rfl, rfl, rfl, hb _, fun _ => rfl, fun _ => rfl⟩
    · have hf := markPeerH_frame s p
      refine ⟨hf.2.2.2.2.2.1, hf.2.2.2.2.2.2.1, hf.2.2.2.2.2.2.2.1, hf.2.2.2.2.1, hf.2.2.2.1, hf.1,
        hf.2.2.1, ?_, ?_, hf.2.2.2.2.2.2.2.2⟩
      · intro q hq; simp only; rw [hb _ q hq, hf.2.1]
      · intro h0; simp [h0] at hmr
  · exact absurd hc' hc

/-- **C02 (unsolicited answers).**  A `SendBlocksProof` from a peer without an outstanding
request - an answer nobody asked for, or the answer to another peer's request - is refused
(`PeerIsNotFound` / `PeerIsNotOnProcess`) and changes nothing at all. -/
theorem blocks_proof_unsolicited_noop (cfg : Cfg) (s s' : St) (p : Nat) (m : BMsg) (code : Nat)
    (h : onBlocksProof cfg s p m = (s', code)) (hs : slotB s p = none) :
    (code = PEER_NOT_FOUND ∨ code = NOT_ON_PROCESS) ∧
    s'.hdr = s.hdr ∧ s'.num = s.num ∧ s'.txr = s.txr ∧ s'.mb = s.mb ∧ s'.fh = s.fh ∧ s'.ft = s.ft ∧
    s'.conn = s.conn ∧ s'.treq = s.treq ∧ ∀ q, s'.breq q = s.breq q := by
  have hmp : markPeerH s p = s := by simp [markPeerH, hs]
  have hcode : (bpInner cfg s p m).2 = PEER_NOT_FOUND ∨ (bpInner cfg s p m).2 = NOT_ON_PROCESS := by
    unfold bpInner
    unfold slotB at hs
    by_cases hc : s.conn p = true
    · simp only [hc, ↓reduceIte] at hs
      simp [hc, hs]
    · simp [hc]
  have hne : code ≠ OK := by
    have : code = (bpInner cfg s p m).2 := by
      have := congrArg Prod.snd h; simpa [onBlocksProof] using this.symm
    rw [this]; rcases hcode with h1 | h1 <;> rw [h1] <;> decide
  have hcode' : code = PEER_NOT_FOUND ∨ code = NOT_ON_PROCESS := by
    have : code = (bpInner cfg s p m).2 := by
      have := congrArg Prod.snd h; simpa [onBlocksProof] using this.symm
    rw [this]; exact hcode
  rcases onBlocksProof_cases cfg s s' p m code h with
    ⟨_, s1, hs1, rfl⟩ | ⟨hc', _⟩
  · have hs1' : s1 = s := by
      rcases hs1 with rfl | ⟨_, rfl⟩
      · rfl
      · exact hmp
    subst hs1'
    refine ⟨hcode', rfl, rfl, rfl, rfl, rfl, rfl, rfl, rfl, ?_⟩
    intro q
    simp only
    split
    · next hc =>
      simp only [slotB, hc, ↓reduceIte] at hs
      simp only [upd_apply]; split
      · next hq => rw [hq, hs]
      · rfl
    · rfl
  · exact absurd hc' hne

/-! ## `SendTransactionsProof` -/

/-- **C02 (transactions).**  A `TxHash` record changes on a `SendTransactionsProof` only if the
sender has an outstanding transactions-proof request, the answer is for the requested last state
and lists exactly the requested hashes, PoW / extra hash / MMR verdicts are true, the Merkle
verdict of EVERY filtered block is true, and the transaction is one of a filtered block of the
message which the user is fetching; the record then names that block's number. -/
theorem txs_proof_stores_tx (cfg : Cfg) (s s' : St) (p : Nat) (m : TMsg) (code t : Nat)
    (h : onTxsProof cfg s p m = (s', code)) (ht : s'.txr t ≠ s.txr t) :
    code = OK ∧ ∃ req, slotT s p = some req ∧ AcceptedT req m ∧
      (s.ft t).isSome = true ∧ s'.ft t = none ∧
      ∃ b ∈ m.blocks, t ∈ b.txs ∧ s'.txr t = some (b.header.number, NO_INDEX) := by
  rcases onTxsProof_cases cfg s s' p m code h with
    ⟨_, s1, hs1, rfl⟩ | ⟨hc, req, s1, hconn, hreq, rfl, hcase⟩
  · exfalso; apply ht
    rcases hs1 with rfl | ⟨_, rfl⟩
    · rfl
    · simp [(markPeerT_frame s p).2.2.2.2.2.2.2.1]
  · rcases hcase with ⟨_, rfl⟩ | ⟨_, _, rfl⟩ | ⟨_, hacc, rfl⟩
    · exact absurd rfl ht
    · exact absurd rfl ht
    · refine ⟨hc, req, by simp [slotT, hconn, hreq], hacc, ?_⟩
      rcases tpAccept_txr cfg s m t with h1 | ⟨b, hb, hm, hs, hf, h1⟩
      · exact absurd h1 ht
      · exact ⟨hs, hf, b, hb, hm, h1⟩

/-- headers enter the store with a transactions proof only as the header of a filtered block
that carries a transaction the user is fetching -/
theorem txs_proof_stores_header (cfg : Cfg) (s s' : St) (p : Nat) (m : TMsg) (code k : Nat)
    (h : onTxsProof cfg s p m = (s', code)) (hk : s'.hdr k ≠ s.hdr k) :
    code = OK ∧ ∃ req, slotT s p = some req ∧ AcceptedT req m ∧
      ∃ b ∈ m.blocks, b.header.hash = k ∧ ∃ t ∈ b.txs, (s.ft t).isSome = true := by
  rcases onTxsProof_cases cfg s s' p m code h with
    ⟨_, s1, hs1, rfl⟩ | ⟨hc, req, s1, hconn, hreq, rfl, hcase⟩
  · exfalso; apply hk
    rcases hs1 with rfl | ⟨_, rfl⟩
    · rfl
    · simp [(markPeerT_frame s p).2.2.2.2.2.1]
  · rcases hcase with ⟨_, rfl⟩ | ⟨_, _, rfl⟩ | ⟨_, hacc, rfl⟩
    · exact absurd rfl hk
    · exact absurd rfl hk
    · refine ⟨hc, req, by simp [slotT, hconn, hreq], hacc, ?_⟩
      rcases tpAccept_hdr cfg s m k with h1 | h1
      · exact absurd h1 hk
      · exact h1

theorem txs_proof_stores_number (cfg : Cfg) (s s' : St) (p : Nat) (m : TMsg) (code n : Nat)
    (h : onTxsProof cfg s p m = (s', code)) (hn : s'.num n ≠ s.num n) :
    code = OK ∧ ∃ req, slotT s p = some req ∧ AcceptedT req m ∧
      ∃ b ∈ m.blocks, b.header.number = n ∧ s'.num n = some b.header.hash ∧
        ∃ t ∈ b.txs, (s.ft t).isSome = true := by
  rcases onTxsProof_cases cfg s s' p m code h with
    ⟨_, s1, hs1, rfl⟩ | ⟨hc, req, s1, hconn, hreq, rfl, hcase⟩
  · exfalso; apply hn
    rcases hs1 with rfl | ⟨_, rfl⟩
    · rfl
    · simp [(markPeerT_frame s p).2.2.2.2.2.2.1]
  · rcases hcase with ⟨_, rfl⟩ | ⟨_, _, rfl⟩ | ⟨_, hacc, rfl⟩
    · exact absurd rfl hn
    · exact absurd rfl hn
    · refine ⟨hc, req, by simp [slotT, hconn, hreq], hacc, ?_⟩
      rcases tpAccept_num cfg s m n with h1 | h1
      · exact absurd h1 hn
      · exact h1

/-- a transactions proof never marks a matched block -/
theorem txs_proof_keeps_matched (cfg : Cfg) (s s' : St) (p : Nat) (m : TMsg) (code : Nat)
    (h : onTxsProof cfg s p m = (s', code)) : s'.mb = s.mb := by
  rcases onTxsProof_cases cfg s s' p m code h with
    ⟨_, s1, hs1, rfl⟩ | ⟨hc, req, s1, hconn, hreq, rfl, hcase⟩
  · rcases hs1 with rfl | ⟨_, rfl⟩
    · rfl
    · simp [(markPeerT_frame s p).2.2.2.2.1]
  · rcases hcase with ⟨_, rfl⟩ | ⟨_, _, rfl⟩ | ⟨_, hacc, rfl⟩
    · rfl
    · rfl
    · exact (tpAccept_frame cfg s m).2.2.2

theorem accepted_txs_requested (req : TReq) (m : TMsg) (ha : AcceptedT req m)
    (hn : req.hashes.Nodup) : ∀ b ∈ m.blocks, ∀ t ∈ b.txs, t ∈ req.hashes := by
  intro b hb t ht
  exact checkHashes_sub _ _ _ ha.matched hn _ (Or.inl (List.mem_flatMap.2 ⟨b, hb, ht⟩))

theorem txs_proof_rejected_unchanged (cfg : Cfg) (s s' : St) (p : Nat) (m : TMsg) (code : Nat)
    (h : onTxsProof cfg s p m = (s', code)) (hc : code ≠ OK) :
    s'.hdr = s.hdr ∧ s'.num = s.num ∧ s'.txr = s.txr ∧ s'.mb = s.mb ∧ s'.fh = s.fh ∧
    s'.conn = s.conn ∧ s'.breq = s.breq ∧ (∀ q, q ≠ p → s'.treq q = s.treq q) ∧
    (cfg.markOnReject = false → s'.ft = s.ft) ∧
    (∀ k, (s'.ft k).isSome = (s.ft k).isSome) := by
  rcases onTxsProof_cases cfg s s' p m code h with
    ⟨_, s1, hs1, rfl⟩ | ⟨hc', _⟩
  · have hb : ∀ (s1 : St) (q : Nat), q ≠ p →
        (if s1.conn p = true then upd s1.treq p none else s1.treq) q = s1.treq q := by
      intro s1 q hq; split <;> simp [upd_apply, hq]
    rcases hs1 with rfl | ⟨hmr, rfl⟩
    · exact ⟨rfl, rfl, rfl, rfl, rfl, rfl, rfl, hb _, fun _ => rfl, fun _ => rfl⟩
    · have hf := markPeerT_frame s p
      refine ⟨hf.2.2.2.2.2.1, hf.2.2.2.2.2.2.1, hf.2.2.2.2.2.2.2.1, hf.2.2.2.2.1, hf.2.2.2.1, hf.1,
        hf.2.1, ?_, ?_, hf.2.2.2.2.2.2.2.2⟩
      · intro q hq; simp only; rw [hb _ q hq, hf.2.2.1]
      · intro h0; simp [h0] at hmr
  · exact absurd hc' hc

theorem txs_proof_unsolicited_noop (cfg : Cfg) (s s' : St) (p : Nat) (m : TMsg) (code : Nat)
    (h : onTxsProof cfg s p m = (s', code)) (hs : slotT s p = none) :
    (code = PEER_NOT_FOUND ∨ code = NOT_ON_PROCESS) ∧
    s'.hdr = s.hdr ∧ s'.num = s.num ∧ s'.txr = s.txr ∧ s'.mb = s.mb ∧ s'.fh = s.fh ∧ s'.ft = s.ft ∧
    s'.conn = s.conn ∧ s'.breq = s.breq ∧ ∀ q, s'.treq q = s.treq q := by
  have hmp : markPeerT s p = s := by simp [markPeerT, hs]
  have hcode : (tpInner cfg s p m).2 = PEER_NOT_FOUND ∨ (tpInner cfg s p m).2 = NOT_ON_PROCESS := by
    unfold tpInner
    unfold slotT at hs
    by_cases hc : s.conn p = true
    · simp only [hc, ↓reduceIte] at hs
      simp [hc, hs]
    · simp [hc]
  have hcd : code = (tpInner cfg s p m).2 := by
    have := congrArg Prod.snd h; simpa [onTxsProof] using this.symm
  have hne : code ≠ OK := by
    rw [hcd]; rcases hcode with h1 | h1 <;> rw [h1] <;> decide
  have hcode' : code = PEER_NOT_FOUND ∨ code = NOT_ON_PROCESS := by
    rw [hcd]; exact hcode
  rcases onTxsProof_cases cfg s s' p m code h with
    ⟨_, s1, hs1, rfl⟩ | ⟨hc', _⟩
  · have hs1' : s1 = s := by
      rcases hs1 with rfl | ⟨_, rfl⟩
      · rfl
      · exact hmp
    subst hs1'
    refine ⟨hcode', rfl, rfl, rfl, rfl, rfl, rfl, rfl, rfl, ?_⟩
    intro q
    simp only
    split
    · next hc =>
      simp only [slotT, hc, ↓reduceIte] at hs
      simp only [upd_apply]; split
      · next hq => rw [hq, hs]
      · rfl
    · rfl
  · exact absurd hc' hne

/-! ## `SendBlock` -/

/-- **C02 (bodies, the part that holds).**  A body is kept only for a matched block that is
marked proved. -/
theorem body_only_for_proved (cfg : Cfg) (s s' : St) (b : Blk) (record : Option (List Nat))
    (next : Option (List (Nat × Bool))) (o : BlkOut)
    (h : onBlock cfg s b record next = .ok (s', o)) (ha : o.accepted = some true) :
    ∃ e ∈ s.mb, e.hash = b.hash ∧ e.proved = true := by
  have hacc : (addBlock s.mb b).2 = some true := by
    rcases onBlock_cases cfg s s' b record next o h with ⟨_, _, _, rfl⟩ | ⟨_, ⟨_, rfl⟩ | ⟨_, _, _, rfl⟩⟩
    · simp at ha
    · exact ha
    · exact ha
  rcases addBlock_cases s.mb b with h1 | h1 | ⟨e, he, hh, hp, _⟩
  · rw [h1] at hacc; simp at hacc
  · rw [h1] at hacc; simp at hacc
  · exact ⟨e, he, hh, hp⟩

/-- the store changes on a `SendBlock` only by indexing downloaded bodies: the block of the
message (accepted for a proved hash) or a body kept earlier -/
theorem block_indexes_only_downloaded (cfg : Cfg) (s s' : St) (b : Blk) (record : Option (List Nat))
    (next : Option (List (Nat × Bool))) (o : BlkOut)
    (h : onBlock cfg s b record next = .ok (s', o)) (t : Nat) (ht : s'.txr t ≠ s.txr t) :
    ∃ x : Blk, ((x = b ∧ o.accepted = some true) ∨ ∃ e ∈ s.mb, e.body = some x) ∧
      x.hash ∈ o.indexed ∧ ∃ i, s'.txr t = some (x.number, i) ∧ (t, true) ∈ x.txs := by
  rcases onBlock_cases cfg s s' b record next o h with
    ⟨_, _, rfl, _⟩ | ⟨_, ⟨rfl, _⟩ | ⟨mb2, _, rfl, rfl⟩⟩
  · exact absurd rfl ht
  · exact absurd rfl ht
  · simp only at ht ⊢
    rcases filterBlock_fold_txr (sortByNum ((addBlock s.mb b).1.filterMap (·.body))) s t with h1 | ⟨x, hx, h1⟩
    · exact absurd h1 ht
    · refine ⟨x, ?_, List.mem_map.2 ⟨x, hx, rfl⟩, h1⟩
      exact addBlock_body s.mb b x ((mem_sortByNum _ _).1 hx)

theorem block_not_indexed_keeps_store (cfg : Cfg) (s s' : St) (b : Blk) (record : Option (List Nat))
    (next : Option (List (Nat × Bool))) (o : BlkOut)
    (h : onBlock cfg s b record next = .ok (s', o)) (hi : o.indexed = []) :
    s'.hdr = s.hdr ∧ s'.num = s.num ∧ s'.txr = s.txr ∧ s'.fh = s.fh ∧ s'.ft = s.ft := by
  rcases onBlock_cases cfg s s' b record next o h with
    ⟨_, _, rfl, _⟩ | ⟨_, ⟨rfl, _⟩ | ⟨mb2, _, rfl, rfl⟩⟩
  · exact ⟨rfl, rfl, rfl, rfl, rfl⟩
  · exact ⟨rfl, rfl, rfl, rfl, rfl⟩
  · simp only [List.map_eq_nil_iff] at hi
    rw [hi]
    exact ⟨rfl, rfl, rfl, rfl, rfl⟩

/-- kept bodies belong to proved entries of their own hash; in the repaired variant the header
commits to them -/
def BodyInv (cfg : Cfg) (s : St) : Prop :=
  ∀ e ∈ s.mb, ∀ x, e.body = some x →
    e.proved = true ∧ x.hash = e.hash ∧ (cfg.checkBody = true → x.bodyOk = true)

/-- `BodyInv` holds along every history -/
theorem bodyInv_run (cfg : Cfg) (s s' : St) (evs : List Ev) (os : List Out)
    (hi : BodyInv cfg s) (h : run cfg s evs = .ok (s', os)) : BodyInv cfg s' :=
  run_bodyOkL cfg evs s s' os h hi

theorem bodyInv_empty (cfg : Cfg) : BodyInv cfg St.empty := by
  intro e he; simp [St.empty] at he

/-- **C02 (bodies) - NOT satisfied by the pinned code.**  `Peers::add_block` never looks at the
body: a block whose header is a proved matched block is accepted and indexed with a body the
header does not commit to (`bodyOk = false`); its made-up transaction 99 enters `TxHash`. -/
theorem body_unchecked_witness :
    let s : St := { St.empty with mb := [⟨7, true, none⟩] }
    let b : Blk := ⟨7, 70, none, [(99, true)], false⟩
    ∃ s' o, onBlock pinned s b (some [7]) none = .ok (s', o) ∧
      o.accepted = some true ∧ o.indexed = [7] ∧ s'.txr 99 = some (70, 0) ∧ s'.num 70 = some 7 := by
  refine ⟨_, _, rfl, ?_⟩
  decide

/-- **C02 (bodies), for the exact exclusion "`SendBlock` bodies the header commits to".**  In the
repaired variant (`checkBody`) this is every accepted body: a body the header does not commit to
is refused, its sender banned, nothing changes. -/
theorem body_committed_partial (cfg : Cfg) (hc : cfg.checkBody = true) (s s' : St) (b : Blk)
    (record : Option (List Nat)) (next : Option (List (Nat × Bool))) (o : BlkOut)
    (hi : BodyInv cfg s) (h : onBlock cfg s b record next = .ok (s', o)) :
    (b.bodyOk = false → o = ⟨none, [], true⟩ ∧ s' = s) ∧
    ∀ t, s'.txr t ≠ s.txr t →
      ∃ x : Blk, x.bodyOk = true ∧ x.hash ∈ o.indexed ∧ ∃ i, s'.txr t = some (x.number, i) ∧ (t, true) ∈ x.txs := by
  have hfirst : b.bodyOk = false → o = ⟨none, [], true⟩ ∧ s' = s := by
    intro hb
    rcases onBlock_cases cfg s s' b record next o h with ⟨_, _, h1, h2⟩ | ⟨h1, _⟩
    · exact ⟨h2, h1⟩
    · rw [h1 hc] at hb; exact absurd hb (by simp)
  refine ⟨hfirst, ?_⟩
  intro t ht
  obtain ⟨x, hx, hin, hrest⟩ := block_indexes_only_downloaded cfg s s' b record next o h t ht
  refine ⟨x, ?_, hin, hrest⟩
  rcases hx with ⟨rfl, hacc⟩ | ⟨e, he, hb⟩
  · cases hbo : x.bodyOk with
    | true => rfl
    | false => rw [(hfirst hbo).1] at hacc; simp at hacc
  · exact (hi e he x hb).2.2 hc

/-! ## everything else -/

/-- no other event writes a header, number or transaction record -/
theorem other_events_keep_store (cfg : Cfg) (s s' : St) (e : Ev) (o : Out)
    (h : step cfg s e = .ok (s', o))
    (h1 : ∀ p m, e ≠ .blocksProof p m) (h2 : ∀ p m, e ≠ .txsProof p m)
    (h3 : ∀ b r n, e ≠ .block b r n) :
    s'.hdr = s.hdr ∧ s'.num = s.num ∧ s'.txr = s.txr := by
  by_cases hk : e ≠ .reorg ∧ ∀ l, e ≠ .envMatched l
  · have := step_keeps cfg s s' e o h h1 h2 h3 hk.1 hk.2
    exact ⟨this.1, this.2.1, this.2.2.1⟩
  · cases e with
    | reorg =>
      simp only [step, Except.ok.injEq, Prod.mk.injEq] at h; rw [← h.1]; exact ⟨rfl, rfl, rfl⟩
    | envMatched l =>
      simp only [step, Except.ok.injEq, Prod.mk.injEq] at h; rw [← h.1]; exact ⟨rfl, rfl, rfl⟩
    | _ => exact absurd ⟨by simp, by intros; simp⟩ hk

/-- a matched block is proved only by a blocks proof, or arrives proved from the records of the
store (`add_matched_blocks`, the environment event) -/
theorem other_events_keep_proved (cfg : Cfg) (s s' : St) (e : Ev) (o : Out)
    (h : step cfg s e = .ok (s', o))
    (h1 : ∀ p m, e ≠ .blocksProof p m) (h2 : ∀ l, e ≠ .envMatched l)
    (h3 : ∀ b r n, e ≠ .block b r n) :
    ∀ e' ∈ s'.mb, e'.proved = true → ∃ e0 ∈ s.mb, e0.hash = e'.hash ∧ e0.proved = true := by
  have same : s'.mb = s.mb →
      ∀ e' ∈ s'.mb, e'.proved = true → ∃ e0 ∈ s.mb, e0.hash = e'.hash ∧ e0.proved = true := by
    intro hm e' he' hp; rw [hm] at he'; exact ⟨e', he', rfl, hp⟩
  by_cases hk : (∀ p m, e ≠ .txsProof p m) ∧ e ≠ .reorg
  · exact same (step_keeps cfg s s' e o h h1 hk.1 h3 hk.2 h2).2.2.2
  · cases e with
    | reorg =>
      simp only [step, Except.ok.injEq, Prod.mk.injEq] at h; rw [← h.1]
      intro e' he'; simp at he'
    | txsProof p m =>
      simp only [step, Except.ok.injEq, Prod.mk.injEq] at h
      exact same (onTxsProof_mb cfg s s' p m (onTxsProof cfg s p m).2 (by rw [← h.1]))
    | _ => exact absurd ⟨by intros; simp, by simp⟩ hk

/-! ## the extension of a stored header -/

/-- **Finding.**  A V0 answer carries no extension: the header is stored with `extension: None`
even over a record that has the extension (stored by `filter_block`). -/
theorem v0_drops_extension_witness :
    let s : St := { St.empty with
      conn := fun p => p = 1,
      treq := fun p => if p = 1 then some ⟨9, [33], 0⟩ else none,
      ft := fun t => if t = 33 then some ⟨0, 5, false, false⟩ else none,
      hdr := fun h => if h = 5 then some ⟨5, 50, some 77⟩ else none,
      num := fun n => if n = 50 then some 5 else none }
    let m : TMsg := ⟨9, false, [⟨⟨5, 50, none⟩, [33], true⟩], [], false, 200, true, true, true, true⟩
    (onTxsProof pinned s 1 m).2 = OK ∧ ((onTxsProof pinned s 1 m).1.hdr 5) = some ⟨5, 50, none⟩ ∧
    ((onTxsProof repaired s 1 m).1.hdr 5) = some ⟨5, 50, some 77⟩ := by
  decide

/-- in the repaired variant a stored extension survives a header stored again without one -/
theorem keepExt_keeps (cfg : Cfg) (hc : cfg.keepExt = true) (s : St) (h : Hdr) (old : Hdr) (x : Nat)
    (ho : s.hdr h.hash = some old) (hx : old.ext = some x) (hn : h.ext = none) :
    (storeHdr cfg s h).hdr h.hash = some { h with ext := some x } := by
  simp [storeHdr, hc, ho, hn, hx, upd_apply]

/-! ## non-vacuity -/

/-- an honest V1 answer to a fetch request: header 5 is stored with its extension, hash 6 is
flagged missing, the slot is cleared -/
example :
    let s : St := { St.empty with
      conn := fun p => p = 1,
      breq := fun p => if p = 1 then some ⟨9, [5, 6], false, 0⟩ else none,
      fh := fun h => if h = 5 ∨ h = 6 then some ⟨0, 3, false, false⟩ else none }
    let m : BMsg := ⟨9, false, [⟨5, 50, some 77⟩], [6], true, 200, true, true, true, true⟩
    let r := onBlocksProof pinned s 1 m
    r.2 = OK ∧ r.1.hdr 5 = some ⟨5, 50, some 77⟩ ∧ r.1.num 50 = some 5 ∧ r.1.fh 5 = none ∧
      r.1.fh 6 = some ⟨0, 3, false, true⟩ ∧ r.1.breq 1 = none := by
  decide

/-- the same answer with a false MMR verdict stores nothing -/
example :
    let s : St := { St.empty with
      conn := fun p => p = 1,
      breq := fun p => if p = 1 then some ⟨9, [5, 6], false, 0⟩ else none,
      fh := fun h => if h = 5 ∨ h = 6 then some ⟨0, 3, false, false⟩ else none }
    let m : BMsg := ⟨9, false, [⟨5, 50, some 77⟩], [6], true, 200, true, true, true, false⟩
    let r := onBlocksProof pinned s 1 m
    r.2 = INVALID_PROOF ∧ r.1.hdr 5 = none ∧ r.1.fh 6 = some ⟨0, 3, false, false⟩ := by
  decide

/-! ## what the MMR verdict means (`verify_mmr_proof`, `MerkleProof::verify`, `MergeHeaderDigest`)

The handler theorems above take the verdict of `verify_mmr_proof` as an input.  The `Mmr` layer
models that function together with the library code it calls (`calculate_root`,
`calculate_peak_root`, `calculate_peaks_hashes`, the bagging, `MergeHeaderDigest::merge`,
`HeaderView::digest`, the position arithmetic) over blake2b as a free term algebra, and is tied
to the code by the function-level differential `lcverif MMR` (part of `./check C02`). -/

/-- **the MMR verdict binds the headers to the chain.**  If the parent chain root of the last
header is the honest root of a chain, then every header of a list that `verify_mmr_proof` accepts
is a header of that chain: the chain has, at the header's number, a header with its hash.  For all
chains, proofs, header lists (any order, duplicates, any length), and without any assumption on
the proof items, which the peer chooses freely. -/
theorem mmr_binds_headers (hdrAt : Nat → Option Mmr.Hdr) (valid : Bool) (lastNumber : Nat)
    (root : Mmr.Digest) (proof : List Mmr.Digest) (headers : List Mmr.Hdr)
    (hroot : Mmr.Honest hdrAt root)
    (h : Mmr.verifyMmrProof valid lastNumber root proof headers = .ok true) :
    ∀ hd ∈ headers, ∃ c, hdrAt hd.number = some c ∧ c.hash = hd.hash :=
  Mmr.verifyMmrProof_sound hdrAt valid lastNumber root proof headers hroot h

/-- what `calculate_root` binds, whatever the root is: every leaf that survives the library's
sort + dedup went into the calculated root through `merge`s -/
theorem mmr_root_contains_leaves (leaves : List (Nat × Mmr.Digest)) (size : Nat)
    (proof : List Mmr.Digest) (r : Mmr.Digest)
    (h : Mmr.calculateRoot leaves size proof = .ok r) :
    ∀ l ∈ Mmr.dedupByPos (Mmr.sortByPos leaves), Mmr.Sub l.2 r :=
  Mmr.calculateRoot_sub leaves size proof r h

/-- distinct block numbers have distinct MMR positions (so the only leaves the library's dedup
can drop are headers with the NUMBER of a verified one, which `noTwins` compares by hash) -/
theorem mmr_positions_injective {i j : Nat} (hi : i + 2 < 2 ^ 64) (hj : j + 2 < 2 ^ 64)
    (h : Mmr.leafIndexToPos i = Mmr.leafIndexToPos j) : i = j :=
  Mmr.leafIndexToPos_injective hi hj h

/-- **witness of the defect repaired by a1163a3**: without the `noTwins` check a made-up header
with the number of a proved block, served after it, is accepted against the honest root of a
chain that does not contain it; the repaired function rejects the list. -/
theorem old_rule_accepts_twin :
    Mmr.Honest Mmr.Witness.hdrAt Mmr.Witness.root2 ∧
    Mmr.verifyMmrProofCfg false true 2 Mmr.Witness.root2 [Mmr.Witness.d 0]
      [Mmr.Witness.hd 1, Mmr.Witness.twin] = .ok true ∧
    (¬ ∃ c, Mmr.Witness.hdrAt Mmr.Witness.twin.number = some c ∧ c.hash = Mmr.Witness.twin.hash) ∧
    Mmr.verifyMmrProof true 2 Mmr.Witness.root2 [Mmr.Witness.d 0]
      [Mmr.Witness.hd 1, Mmr.Witness.twin] = .ok false :=
  ⟨Mmr.Witness.root2_honest, Mmr.Witness.wrapper_old_twin, Mmr.Witness.twin_not_on_chain,
   Mmr.Witness.wrapper_new_twin⟩

/-- the premises of `mmr_binds_headers` are satisfiable: an honest root and an accepted proof -/
example : Mmr.Honest Mmr.Witness.hdrAt Mmr.Witness.root2 ∧
    Mmr.verifyMmrProof true 2 Mmr.Witness.root2 [Mmr.Witness.d 0] [Mmr.Witness.hd 1] = .ok true :=
  ⟨Mmr.Witness.root2_honest, Mmr.Witness.wrapper_honest⟩


/-! ## what the transactions Merkle verdict means (`merkle-cbt` `MerkleProof::root`, the guard of
`SendTransactionsProofProcess::execute`)

The `Cbmt` layer models the check of one filtered block - the repository's `required_lemmas_count`
guard, `MerkleProof::root` with its queue loop and `u32` index arithmetic, `MergeByte32`,
`merkle_root` - over blake2b as a free term algebra; tied to the code by `lcverif CBMT`. -/

/-- **the Merkle verdict binds the transactions to the header.**  If the header's transactions
root is the hash of (raw transactions root, witnesses root), every transaction hash of an accepted
filtered block occurs in the raw transactions root - for all indices, lemmas and hashes, in any
order, with duplicates. -/
theorem merkle_binds_transactions (rawRoot wr witnessesRoot : Cbmt.T) (indices : List Nat)
    (lemmas txHashes : List Cbmt.T)
    (h : Cbmt.checkFilteredBlock (Cbmt.merge rawRoot wr) witnessesRoot indices lemmas txHashes
      = .ok true) :
    ∀ t ∈ txHashes, Cbmt.Sub t rawRoot :=
  Cbmt.checkFilteredBlock_sound rawRoot wr witnessesRoot indices lemmas txHashes h

/-- **witness of the defect repaired by fb17202**: before the guard, a made-up transaction next to
the only transaction of a block (no lemma needed, the library skips the node it has no lemma for)
was accepted although it does not occur in the transactions root; the repaired check rejects it. -/
theorem old_rule_accepts_unproved_transaction :
    Cbmt.checkFilteredBlockCfg false Cbmt.Witness.troot Cbmt.Witness.wroot [0, 5] []
      [Cbmt.Witness.x, Cbmt.Witness.c] = .ok true ∧
    ¬ Cbmt.Sub Cbmt.Witness.x Cbmt.Witness.c ∧
    Cbmt.checkFilteredBlock Cbmt.Witness.troot Cbmt.Witness.wroot [0, 5] []
      [Cbmt.Witness.x, Cbmt.Witness.c] = .ok false :=
  ⟨Cbmt.Witness.old_check_accepts, Cbmt.Witness.x_not_in_root, Cbmt.Witness.new_check_rejects⟩

/-- the premise of `merkle_binds_transactions` is satisfiable: the honest proof of the only
transaction of a block -/
example : Cbmt.checkFilteredBlock (Cbmt.merge Cbmt.Witness.c Cbmt.Witness.wroot) Cbmt.Witness.wroot
    [0] [] [Cbmt.Witness.c] = .ok true :=
  Cbmt.Witness.honest_single


end C02

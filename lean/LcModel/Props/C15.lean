import LcModel.Sampling.Lemmas
/-!
# C15 — every proof request the client builds is well-formed and samples enough

Subject: `Sampling.buildRequest` / `Sampling.buildRequestFromGenesis` (model of
`build_prove_request_content(_from_genesis)` + `sampling::sample_blocks`), tied to the code by
`./check C15`.  The float-derived quantities are universally quantified inputs: `nb` (numerator
of `1 - delta`), `draws` (numerators of the random draws) and `m` (estimated requirement).
The statement "`m` is at least the FlyClient bound" is about `f64` and is validated by exact
recomputation in the harness, not proved (DESIGN.md C15, partial by construction).
-/
namespace C15
open Sampling

/-- **C15 (well-formed request).**  Whatever start/last numbers and total difficulties, stored
last-N headers, boundary numerator `nb ≤ 10^9` and random draws: a request that is built names a
start strictly below the last block and not above it in difficulty; when at most last-N blocks
are missing it asks for all of them (from the own start or a stored last-N header at most last-N
below the last block), carries no samples and the start difficulty as boundary; otherwise the
boundary lies in `(start, last]`, the samples are strictly increasing (hence unique), lie in
`[start, boundary)` — in `(start, boundary)` unless the boundary is `start + 1`, the degenerate
range recorded as a known finding — and there are between 1 and `|draws|` of them. -/
theorem request_wf (lastN sn std ln ltd : Nat) (hs : List Nat) (nb : Nat) (draws : List Nat)
    (r : Request) (hnb : nb ≤ SCALE)
    (h : buildRequest lastN sn std ln ltd hs nb draws = .ok (some r)) :
    r.startNumber < ln ∧ std ≤ ltd ∧
    (ln - sn ≤ lastN →
      r.difficulties = [] ∧ r.boundary = std ∧ r.startNumber ≤ sn ∧ ln - r.startNumber ≤ lastN) ∧
    (lastN < ln - sn →
      r.startNumber = sn ∧ std < r.boundary ∧ r.boundary ≤ ltd ∧
      Sorted r.difficulties ∧
      (∀ d ∈ r.difficulties, std ≤ d ∧ d < r.boundary ∧ (std + 2 ≤ r.boundary → std < d)) ∧
      r.difficulties.length ≤ draws.length ∧ (draws ≠ [] → r.difficulties ≠ [])) := by
  unfold buildRequest at h
  split at h
  · simp at h
  · rename_i hg
    simp only [Bool.or_eq_true, decide_eq_true_eq, not_or, Nat.not_lt, Nat.not_le] at hg
    obtain ⟨hg1, hg2⟩ := hg
    split at h
    · -- at most last-N blocks are missing
      rename_i hbr
      simp only [M.bind_eq_ok] at h
      obtain ⟨fr, hfr, h⟩ := h
      cases fr with
      | none =>
        simp only [M.pure_eq_ok, Option.some.injEq] at h
        subst h
        refine ⟨hg2, hg1, fun _ => ⟨rfl, rfl, Nat.le_refl _, hbr⟩, fun hc => by omega⟩
      | some p =>
        obtain ⟨i, num⟩ := p
        simp only [M.pure_eq_ok, Option.some.injEq] at h
        subst h
        obtain ⟨h1, h2⟩ := findRebase_spec sn ln lastN hs 0 i num hfr
        refine ⟨by simp; omega, hg1, fun _ => ⟨rfl, rfl, by simp; omega, by simp; omega⟩,
          fun hc => by omega⟩
    · rename_i hbr
      split at h
      · simp at h
      · rename_i hne
        simp only [M.bind_eq_ok, M.pure_eq_ok, Option.some.injEq] at h
        obtain ⟨⟨boundary, ds⟩, hsb, rfl⟩ := h
        unfold sampleBlocks at hsb
        simp only [M.bind_eq_ok, subU256_eq_ok, addU256_eq_ok, M.pure_eq_ok, Prod.mk.injEq] at hsb
        obtain ⟨range, ⟨_, rfl⟩, b, ⟨_, rfl⟩, dl, hdl, rfl, rfl⟩ := hsb
        have hrange : 1 ≤ ltd - std := by omega
        have hm1 := multiply_pos (ltd - std) nb
        have hm2 := multiply_le (ltd - std) nb hrange hnb
        obtain ⟨hlen, hmem⟩ := drawAll_spec _ _ _ _ _ hdl
        refine ⟨hg2, hg1, fun hc => by omega, fun _ => ⟨rfl, by simp; omega, by simp; omega,
          sorted_sortDedup dl, ?_, ?_, ?_⟩⟩
        · intro d hd
          have hd' := (mem_sortDedup dl d).1 hd
          obtain ⟨num, _, hr⟩ := hmem d hd'
          have hmp := multiply_pos (ltd - std) num
          rcases randomSample_spec _ _ _ _ _ hr with ⟨h1, h2⟩ | ⟨h1, h2, h3⟩
          · simp; omega
          · simp; omega
        · have := length_sortDedup_le dl; simp; omega
        · intro hd
          apply sortDedup_ne_nil
          intro hc; rw [hc] at hlen; simp at hlen
          exact hd (List.eq_nil_of_length_eq_zero hlen.symm)

/-- **C15 (never abort).**  With machine-typed inputs (`u64` numbers, `U256` difficulties),
ratios `≤ 1` and stored last-N header numbers that do not overflow when `lastN` is added,
building a request returns (`none` or a request). -/
theorem no_abort (lastN sn std ln ltd : Nat) (hs : List Nat) (nb : Nat) (draws : List Nat)
    (hnb : nb ≤ SCALE) (hdraws : ∀ n ∈ draws, n ≤ SCALE)
    (hltd : ltd ≤ U256_MAX) (hhs : ∀ num ∈ hs, num + lastN ≤ U64_MAX) :
    ∃ r, buildRequest lastN sn std ln ltd hs nb draws = .ok r := by
  unfold buildRequest
  split
  · exact ⟨none, rfl⟩
  · rename_i hg
    simp only [Bool.or_eq_true, decide_eq_true_eq, not_or, Nat.not_lt, Nat.not_le] at hg
    obtain ⟨hg1, hg2⟩ := hg
    split
    · obtain ⟨fr, hfr⟩ := findRebase_ok sn ln lastN hs 0 hhs
      cases fr with
      | none => exact ⟨some ⟨.own, sn, std, []⟩, by simp [hfr, bind, Except.bind, pure, Except.pure]⟩
      | some p => exact ⟨some ⟨.stored p.1, p.2, std, []⟩, by simp [hfr, bind, Except.bind, pure, Except.pure]⟩
    · split
      · exact ⟨none, rfl⟩
      · rename_i hne
        have hrange : 1 ≤ ltd - std := by omega
        have hfit : ∀ num, num ≤ SCALE → std + multiply (ltd - std) num ≤ U256_MAX := by
          intro num hnum
          have := multiply_le (ltd - std) num hrange hnum
          omega
        have hm1 := multiply_pos (ltd - std) nb
        obtain ⟨ds, hds⟩ := drawAll_ok std (ltd - std) (std + multiply (ltd - std) nb)
          (by omega) hfit draws hdraws
        have hb := hfit nb hnb
        refine ⟨some ⟨.own, sn, std + multiply (ltd - std) nb, sortDedup ds⟩, ?_⟩
        simp only [sampleBlocks, subU256, addU256, hg1, hb, hds, if_true, bind, Except.bind, pure,
          Except.pure]

/-- **C15 (sample count structure).**  As a function of the estimated requirement `m`:
nothing is sampled iff at most last-N blocks are missing; otherwise at least one and at most
`blocks - lastN` draws are made, and the last-N blocks plus the draws cover `m` whenever `m`
blocks exist (`count + lastN ≥ min m blocks`). -/
theorem count_structure (blocks lastN m : Nat) :
    (blocks ≤ lastN → estimateSamplesCount blocks lastN m = 0) ∧
    (lastN < blocks →
      1 ≤ estimateSamplesCount blocks lastN m ∧
      estimateSamplesCount blocks lastN m ≤ blocks - lastN ∧
      min m blocks ≤ estimateSamplesCount blocks lastN m + lastN) := by
  unfold estimateSamplesCount
  constructor
  · intro h; simp [h]
  · intro h
    have h1 : ¬ blocks ≤ lastN := by omega
    simp only [h1, if_false]
    split
    · omega
    · split <;> omega

/-- non-vacuity: a request with samples (start 0/td 0, last #300/td 30000, last-N 100,
`1-delta = 2/3`, three draws two of which coincide) -/
example : buildRequest 100 0 0 300 30000 [] 666666666 [100000000, 500000000, 100000000]
    = .ok (some ⟨.own, 0, 19999, [3000, 15000]⟩) := by rfl

/-- non-vacuity: the rebase branch picks the first stored header that covers the gap -/
example : buildRequest 5 10 1000 13 1300 [6, 7, 8, 9] 0 []
    = .ok (some ⟨.stored 2, 8, 1000, []⟩) := by rfl

/-- Known finding, as a theorem about the model: in a degenerate range the only sample equals the
start difficulty (`last_n = 3`, start #84 td 1, last #88 td 3 — replayed on the implementation by
`corpus/C15/pinned-findings.case`). -/
theorem witness_degenerate_range_sample_is_start :
    buildRequest 3 84 1 88 3 [] 250000000 [0] = .ok (some ⟨.own, 84, 2, [1]⟩) := by rfl

end C15

import LcModel.Prelude
/-!
# Filter layer — `BlockFiltersProcess::execute` and the cache update of `BlockFilterHashesProcess::execute`

Which block filters the client acts on.  Hashes, filters and block hashes are ids; the filter
hash function `calc_filter_hash(parent, filter)` is the parameter `H`; the verdict of the GCS
match of each filter against the registered scripts is an input (`verdicts`); the filter hashes
"the required number of proven peers agree on" after the finalized check point
(`Peers::get_latest_block_filter_hashes`) are the input `latest`.  The cached filter hashes
inside a finalized interval are state (`St.cached`), written by `onCachedHashes`.
-/
namespace Filter

structure St where
  interval : Nat            -- CHECK_POINT_INTERVAL
  minF : Nat                -- MIN_FILTERED_NUMBER
  scriptsEmpty : Bool
  finIdx : Nat              -- index of the last finalized check point
  cps : List Nat            -- stored check points, by index
  cachedIdx : Nat           -- check point index the cached filter hashes follow
  cached : List Nat         -- cached filter hashes of blocks cachedIdx*interval+1 …
  deriving Repr, DecidableEq

structure Msg where
  start : Nat
  filters : List Nat
  hashes : List Nat
  verdicts : List Bool
  deriving Repr, DecidableEq

inductive Res where
  | ignored (why : Nat)
  | banned (code : Nat)
  /-- `k` filters accepted: the filtered height becomes `start + k - 1`; `matched` = block hashes
  recorded for download -/
  | accepted (k : Nat) (matched : List Nat)
  deriving Repr, DecidableEq

/-- status codes -/
def MALFORMED : Nat := 400
def FILTER_DATA_UNEXPECTED : Nat := 483

/-- the check loop: `some parent'` when every filter hashes to the expected value -/
def checkChain (H : Nat → Nat → Nat) : Nat → List Nat → List Nat → Bool
  | _, [], _ => true
  | _, _, [] => true
  | parent, f :: fs, e :: es => if H parent f = e then checkChain H e fs es else false

def getIdx {α} (site : Nat) (l : List α) (i : Nat) : M α :=
  match l[i]? with
  | some x => .ok x
  | none => .error (.index site)

/-- the anchor and the expected hashes for a batch starting at `start`:
`none` = ignore (with the reason) -/
def expectedFor (s : St) (latest : List Nat) (start : Nat) : M (Except Nat (Nat × List Nat)) := do
  let finNumber := s.interval * s.finIdx
  if start ≤ finNumber then
    let cachedNumber := s.interval * s.cachedIdx
    let nextNumber := s.interval * (s.cachedIdx + 1)
    if start ≤ cachedNumber || start > nextNumber then return .error 5
    if s.cached.isEmpty then return .error 6
    -- the cached hashes come from one peer and are compared with the next check point only when
    -- they reach it
    if s.cached.length < nextNumber - cachedNumber then return .error 7
    if start = cachedNumber + 1 then
      match s.cps[s.cachedIdx]? with
      | some cp => return .ok (cp, s.cached)
      | none => throw (.expect 301)
    else
      let idx := start - cachedNumber - 2
      let parent ← getIdx 302 s.cached idx
      return .ok (parent, s.cached.drop (idx + 1))
  else
    if start = finNumber + 1 then
      match s.cps[s.finIdx]? with
      | some cp => return .ok (cp, latest)
      | none => throw (.expect 303)
    else
      let idx := start - finNumber - 2
      if idx ≥ latest.length then return .error 8
      let parent ← getIdx 304 latest idx
      return .ok (parent, latest.drop (idx + 1))

/-- the block hashes of the filters that matched, among the first `limit` -/
def matchedOf (m : Msg) (limit : Nat) : List Nat :=
  ((m.hashes.zip m.verdicts).take limit).filterMap (fun e => if e.2 then some e.1 else none)

/-- `Peers::update_min_filtered_block_number`: the cache follows the filtered height -/
def moveTo (s : St) (n : Nat) : St :=
  let idx := n / s.interval
  if idx = s.cachedIdx then { s with minF := n } else { s with minF := n, cachedIdx := idx, cached := [] }

def execute (H : Nat → Nat → Nat) (s : St) (proved : Bool) (latest : List Nat) (m : Msg) :
    M (St × Res) := do
  if s.scriptsEmpty then return (s, .ignored 1)
  if !proved then return (s, .ignored 2)
  if s.minF + 1 ≠ m.start then return (s, .ignored 3)
  if m.filters.length ≠ m.hashes.length then return (s, .banned MALFORMED)
  if m.filters.length = 0 then return (s, .ignored 4)
  match ← expectedFor s latest m.start with
  | .error why => return (s, .ignored why)
  | .ok (parent, expected) =>
    let limit := min m.filters.length expected.length
    if !checkChain H parent (m.filters.take limit) expected then
      return (s, .banned FILTER_DATA_UNEXPECTED)
    return (moveTo s (m.start - 1 + limit), .accepted limit (matchedOf m limit))

/-! ### the rule before 8a6f6e1 (partial cached hashes were used) -/

def oldExpectedFor (s : St) (latest : List Nat) (start : Nat) : M (Except Nat (Nat × List Nat)) := do
  let finNumber := s.interval * s.finIdx
  if start ≤ finNumber then
    let cachedNumber := s.interval * s.cachedIdx
    let nextNumber := s.interval * (s.cachedIdx + 1)
    if start ≤ cachedNumber || start > nextNumber then return .error 5
    if s.cached.isEmpty then return .error 6
    if start = cachedNumber + 1 then
      match s.cps[s.cachedIdx]? with
      | some cp => return .ok (cp, s.cached)
      | none => throw (.expect 301)
    else
      let idx := start - cachedNumber - 2
      let parent ← getIdx 302 s.cached idx
      return .ok (parent, s.cached.drop (idx + 1))
  else expectedFor s latest start

/-! ### `BlockFilterHashesProcess::execute`, the branch that fills the cache

The cached filter hashes of the interval the filtered height is in (`start ≤ finalized number`,
`cached number < start ≤ next cached number`).  The other branch (`update_latest_block_filter_hashes`,
hashes after the finalized check point, kept per peer) is not modelled: `.other`.

Numbers are naturals: `start + len` cannot overflow `u64` because `start` is at most the finalized
check point number and the length is bounded by the frame size; every subtraction and every
slice / index site of the code is a checked `M` step (`subU64`, `getIdx`). -/

inductive HRes where
  | ignored (why : Nat)
  | banned (code : Nat)
  /-- the cache was written (possibly with the same content); `ask = some n`: more hashes are
  requested from block `n` (`end < next check point`), `none`: the filters are asked for -/
  | updated (ask : Option Nat)
  /-- the message does not take the cached branch -/
  | other
  deriving Repr, DecidableEq

def HASHES_UNEXPECTED : Nat := 482

/-- the test of the parent hash: `some r` = stop with `r` -/
def parentCheck (s : St) (start parent cachedNumber cp : Nat) : M (Option HRes) := do
  if start = cachedNumber + 1 then
    if cp ≠ parent then return some (.banned HASHES_UNEXPECTED)
    return none
  else
    let diff ← subU64 310 start cachedNumber
    let idx ← subU64 311 diff 2
    let h ← getIdx 307 s.cached idx
    if h ≠ parent then return some (.ignored 3)
    return none

/-- the comparison with the next check point; `old = true`: the rule before 18445c9
(`end_number > next`), `old = false`: the current rule (`end_number >= next`) -/
def endCheck (old : Bool) (hashes : List Nat) (endNumber nextNumber nextCp : Nat) : M (Option HRes) := do
  if (if old then endNumber > nextNumber else endNumber ≥ nextNumber) then
    let diff ← subU64 312 endNumber nextNumber
    let i0 ← subU64 313 hashes.length diff
    let idx ← subU64 314 i0 1
    let nh ← getIdx 308 hashes idx
    if nextCp ≠ nh then return some (.banned HASHES_UNEXPECTED)
    return none
  else return none

/-- the new cache: the cached hashes followed by the new ones they do not cover, up to the next
check point -/
def extendCache (cached hashes : List Nat) (startIndex endNumber nextNumber : Nat) : M (List Nat) := do
  if endNumber > nextNumber then
    let excess ← subU64 315 endNumber nextNumber
    let newSize ← subU64 316 hashes.length excess
    if startIndex < newSize then return cached ++ (hashes.take newSize).drop startIndex
    return cached
  else if startIndex < hashes.length then return cached ++ hashes.drop startIndex
  else return cached

def hashesCore (old : Bool) (s : St) (proved : Bool) (start parent : Nat) (hashes : List Nat) :
    M (St × HRes) := do
  -- a disconnected peer or a peer without a proved state
  if !proved then return (s, .ignored 1)
  let finNumber := s.interval * s.finIdx
  let cachedNumber := s.interval * s.cachedIdx
  let nextNumber := s.interval * (s.cachedIdx + 1)
  if !(start ≤ finNumber && cachedNumber < start && start ≤ nextNumber) then return (s, .other)
  let cachedLast := cachedNumber + s.cached.length
  if start > cachedLast + 1 then return (s, .ignored 2)
  -- `get_check_points(cached_check_point_index, 2)`, `[0]` and `[1]`
  let cp ← getIdx 305 s.cps s.cachedIdx
  let nextCp ← getIdx 306 s.cps (s.cachedIdx + 1)
  match ← parentCheck s start parent cachedNumber cp with
  | some r => return (s, r)
  | none =>
  let endNumber ← subU64 317 (start + hashes.length) 1
  match ← endCheck old hashes endNumber nextNumber nextCp with
  | some r => return (s, r)
  | none =>
  let offset ← subU64 318 start (cachedNumber + 1)
  -- `cached_hashes[index_offset..]`
  if offset > s.cached.length then throw (.index 309)
  let tail := s.cached.drop offset
  if (tail.zip hashes).any (fun p => p.1 ≠ p.2) then return (s, .ignored 4)
  let new ← extendCache s.cached hashes tail.length endNumber nextNumber
  return ({ s with cached := new }, .updated (if endNumber < nextNumber then some (endNumber + 1) else none))

/-- `BlockFilterHashesProcess::execute` (cached branch) as of 18445c9 -/
def onCachedHashes (s : St) (proved : Bool) (start parent : Nat) (hashes : List Nat) : M (St × HRes) :=
  hashesCore false s proved start parent hashes

/-- **the rule before 18445c9** (`end_number > next_cached_check_point_number`): hashes that end
exactly at the next check point were not compared with it.  Kept for the witness
`C06.old_rule_end_unchecked` only. -/
def onCachedHashesOld (s : St) (proved : Bool) (start parent : Nat) (hashes : List Nat) : M (St × HRes) :=
  hashesCore true s proved start parent hashes

/-! ### driver -/

structure D where
  s : St
  latest : List Nat
  table : List ((Nat × Nat) × Nat)

def tableH (t : List ((Nat × Nat) × Nat)) (p f : Nat) : Nat :=
  match t.find? (fun e => e.1 = (p, f)) with
  | some e => e.2
  | none => 0

def showHRes : HRes → String
  | .ignored _ => "ignored"
  | .banned c => s!"banned {c}"
  | .updated (some n) => s!"updated ask {n}"
  | .updated none => "updated ask none"
  | .other => "other"

def showRes : Res → String
  | .ignored _ => "ignored"
  | .banned c => s!"banned {c}"
  | .accepted k m => s!"accepted {k} {m}"

def groups (sep : String) (ts : List String) : List (List String) :=
  ts.foldr (fun t acc => if t = sep then [] :: acc else match acc with
    | g :: gs => (t :: g) :: gs
    | [] => [[t]]) [[]]

/-- ops:
 `st interval minF scriptsEmpty finIdx cachedIdx | cps… | cached… | latest…`
 `h parent filter hash`
 `msg proved start | filters… | hashes… | verdicts(0/1)…`
 `hashes proved start parent | hashes…`  (cached branch of `BlockFilterHashesProcess`; answer
   `<ignored | banned c | updated ask <n|none> | other> cache <cachedIdx> <len> : <cached…>`) -/
def stepLine (d : D) (line : String) : D × String :=
  match groups "|" (tokens line) with
  | ["st", a, b, c, e, f] :: cps :: cached :: latest :: _ =>
    (match natsOf [a, b, c, e, f], natsOf cps, natsOf cached, natsOf latest with
     | some [interval, minF, se, finIdx, cachedIdx], some cps, some cached, some latest =>
       ({ d with s := ⟨interval, minF, se = 1, finIdx, cps, cachedIdx, cached⟩, latest := latest, table := [] }, "ok")
     | _, _, _, _ => (d, "bad-op"))
  | ["h", p, f, h] :: _ =>
    (match natsOf [p, f, h] with
     | some [p, f, h] => ({ d with table := ((p, f), h) :: d.table }, "ok")
     | _ => (d, "bad-op"))
  | ["msg", pr, st] :: fs :: hs :: vs :: _ =>
    (match natsOf [pr, st], natsOf fs, natsOf hs, natsOf vs with
     | some [pr, st], some fs, some hs, some vs =>
       (match execute (tableH d.table) d.s (pr = 1) d.latest ⟨st, fs, hs, vs.map (· = 1)⟩ with
        | .ok (s', r) => ({ d with s := s' }, s!"{showRes r} minF {s'.minF} cache {s'.cachedIdx} {s'.cached.length}")
        | .error e => (d, showPanic e))
     | _, _, _, _ => (d, "bad-op"))
  | ["hashes", pr, st, pa] :: hs :: _ =>
    (match natsOf [pr, st, pa], natsOf hs with
     | some [pr, st, pa], some hs =>
       (match onCachedHashes d.s (pr = 1) st pa hs with
        | .ok (s', r) =>
          ({ d with s := s' },
           s!"{showHRes r} cache {s'.cachedIdx} {s'.cached.length} : {" ".intercalate (s'.cached.map toString)}")
        | .error e => (d, showPanic e))
     | _, _ => (d, "bad-op"))
  | _ => (d, "bad-op")

def initD : D := ⟨⟨2000, 0, true, 0, [], 0, []⟩, [], []⟩

end Filter

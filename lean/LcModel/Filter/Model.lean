import LcModel.Prelude
/-!
# Filter layer — `BlockFiltersProcess::execute`

Which block filters the client acts on.  Hashes, filters and block hashes are ids; the filter
hash function `calc_filter_hash(parent, filter)` is the parameter `H`; the verdict of the GCS
match of each filter against the registered scripts is an input (`verdicts`); the filter hashes
"the required number of proven peers agree on" after the finalized check point
(`Peers::get_latest_block_filter_hashes`) are the input `latest`.
-/
namespace Filter

structure St where
  interval : Nat            -- CHECK_POINT_INTERVAL
  minF : Nat                -- MIN_FILTERED_NUMBER
  scriptsEmpty : Bool
  finIdx : Nat              -- index of the last finalized check point
  cps : List Nat            -- stored check points, by index
  cachedIdx : Nat           -- check point index the cached filter hashes follow
  cached : List Nat         -- cached filter hashes of blocks cachedIdx*interval+1 …
  deriving Repr, DecidableEq

structure Msg where
  start : Nat
  filters : List Nat
  hashes : List Nat
  verdicts : List Bool
  deriving Repr, DecidableEq

inductive Res where
  | ignored (why : Nat)
  | banned (code : Nat)
  /-- `k` filters accepted: the filtered height becomes `start + k - 1`; `matched` = block hashes
  recorded for download -/
  | accepted (k : Nat) (matched : List Nat)
  deriving Repr, DecidableEq

/-- status codes -/
def MALFORMED : Nat := 400
def FILTER_DATA_UNEXPECTED : Nat := 483

/-- the check loop: `some parent'` when every filter hashes to the expected value -/
def checkChain (H : Nat → Nat → Nat) : Nat → List Nat → List Nat → Bool
  | _, [], _ => true
  | _, _, [] => true
  | parent, f :: fs, e :: es => if H parent f = e then checkChain H e fs es else false

def getIdx {α} (site : Nat) (l : List α) (i : Nat) : M α :=
  match l[i]? with
  | some x => .ok x
  | none => .error (.index site)

/-- the anchor and the expected hashes for a batch starting at `start`:
`none` = ignore (with the reason) -/
def expectedFor (s : St) (latest : List Nat) (start : Nat) : M (Except Nat (Nat × List Nat)) := do
  let finNumber := s.interval * s.finIdx
  if start ≤ finNumber then
    let cachedNumber := s.interval * s.cachedIdx
    let nextNumber := s.interval * (s.cachedIdx + 1)
    if start ≤ cachedNumber || start > nextNumber then return .error 5
    if s.cached.isEmpty then return .error 6
    -- the cached hashes come from one peer and are compared with the next check point only when
    -- they reach it
    if s.cached.length < nextNumber - cachedNumber then return .error 7
    if start = cachedNumber + 1 then
      match s.cps[s.cachedIdx]? with
      | some cp => return .ok (cp, s.cached)
      | none => throw (.expect 301)
    else
      let idx := start - cachedNumber - 2
      let parent ← getIdx 302 s.cached idx
      return .ok (parent, s.cached.drop (idx + 1))
  else
    if start = finNumber + 1 then
      match s.cps[s.finIdx]? with
      | some cp => return .ok (cp, latest)
      | none => throw (.expect 303)
    else
      let idx := start - finNumber - 2
      if idx ≥ latest.length then return .error 8
      let parent ← getIdx 304 latest idx
      return .ok (parent, latest.drop (idx + 1))

/-- the block hashes of the filters that matched, among the first `limit` -/
def matchedOf (m : Msg) (limit : Nat) : List Nat :=
  ((m.hashes.zip m.verdicts).take limit).filterMap (fun e => if e.2 then some e.1 else none)

/-- `Peers::update_min_filtered_block_number`: the cache follows the filtered height -/
def moveTo (s : St) (n : Nat) : St :=
  let idx := n / s.interval
  if idx = s.cachedIdx then { s with minF := n } else { s with minF := n, cachedIdx := idx, cached := [] }

def execute (H : Nat → Nat → Nat) (s : St) (proved : Bool) (latest : List Nat) (m : Msg) :
    M (St × Res) := do
  if s.scriptsEmpty then return (s, .ignored 1)
  if !proved then return (s, .ignored 2)
  if s.minF + 1 ≠ m.start then return (s, .ignored 3)
  if m.filters.length ≠ m.hashes.length then return (s, .banned MALFORMED)
  if m.filters.length = 0 then return (s, .ignored 4)
  match ← expectedFor s latest m.start with
  | .error why => return (s, .ignored why)
  | .ok (parent, expected) =>
    let limit := min m.filters.length expected.length
    if !checkChain H parent (m.filters.take limit) expected then
      return (s, .banned FILTER_DATA_UNEXPECTED)
    return (moveTo s (m.start - 1 + limit), .accepted limit (matchedOf m limit))

/-! ### the rule before 8a6f6e1 (partial cached hashes were used) -/

def oldExpectedFor (s : St) (latest : List Nat) (start : Nat) : M (Except Nat (Nat × List Nat)) := do
  let finNumber := s.interval * s.finIdx
  if start ≤ finNumber then
    let cachedNumber := s.interval * s.cachedIdx
    let nextNumber := s.interval * (s.cachedIdx + 1)
    if start ≤ cachedNumber || start > nextNumber then return .error 5
    if s.cached.isEmpty then return .error 6
    if start = cachedNumber + 1 then
      match s.cps[s.cachedIdx]? with
      | some cp => return .ok (cp, s.cached)
      | none => throw (.expect 301)
    else
      let idx := start - cachedNumber - 2
      let parent ← getIdx 302 s.cached idx
      return .ok (parent, s.cached.drop (idx + 1))
  else expectedFor s latest start

/-! ### driver -/

structure D where
  s : St
  latest : List Nat
  table : List ((Nat × Nat) × Nat)

def tableH (t : List ((Nat × Nat) × Nat)) (p f : Nat) : Nat :=
  match t.find? (fun e => e.1 = (p, f)) with
  | some e => e.2
  | none => 0

def showRes : Res → String
  | .ignored _ => "ignored"
  | .banned c => s!"banned {c}"
  | .accepted k m => s!"accepted {k} {m}"

def groups (sep : String) (ts : List String) : List (List String) :=
  ts.foldr (fun t acc => if t = sep then [] :: acc else match acc with
    | g :: gs => (t :: g) :: gs
    | [] => [[t]]) [[]]

/-- ops:
 `st interval minF scriptsEmpty finIdx cachedIdx | cps… | cached… | latest…`
 `h parent filter hash`
 `msg proved start | filters… | hashes… | verdicts(0/1)…` -/
def stepLine (d : D) (line : String) : D × String :=
  match groups "|" (tokens line) with
  | ["st", a, b, c, e, f] :: cps :: cached :: latest :: _ =>
    (match natsOf [a, b, c, e, f], natsOf cps, natsOf cached, natsOf latest with
     | some [interval, minF, se, finIdx, cachedIdx], some cps, some cached, some latest =>
       ({ d with s := ⟨interval, minF, se = 1, finIdx, cps, cachedIdx, cached⟩, latest := latest, table := [] }, "ok")
     | _, _, _, _ => (d, "bad-op"))
  | ["h", p, f, h] :: _ =>
    (match natsOf [p, f, h] with
     | some [p, f, h] => ({ d with table := ((p, f), h) :: d.table }, "ok")
     | _ => (d, "bad-op"))
  | ["msg", pr, st] :: fs :: hs :: vs :: _ =>
    (match natsOf [pr, st], natsOf fs, natsOf hs, natsOf vs with
     | some [pr, st], some fs, some hs, some vs =>
       (match execute (tableH d.table) d.s (pr = 1) d.latest ⟨st, fs, hs, vs.map (· = 1)⟩ with
        | .ok (s', r) => ({ d with s := s' }, s!"{showRes r} minF {s'.minF} cache {s'.cachedIdx} {s'.cached.length}")
        | .error e => (d, showPanic e))
     | _, _, _, _ => (d, "bad-op"))
  | _ => (d, "bad-op")

def initD : D := ⟨⟨2000, 0, true, 0, [], 0, []⟩, [], []⟩

end Filter

import LcModel.Filter.Lemmas
/-! # Filter layer — lemmas for the cache update of `BlockFilterHashesProcess` (C06) -/
namespace Filter

/-! ### the three steps: totality -/

theorem parentCheck_no_abort (s : St) (start parent cN cp : Nat)
    (h1 : cN < start) (h2 : start ≤ cN + s.cached.length + 1) :
    ∃ r, parentCheck s start parent cN cp = .ok r := by
  unfold parentCheck
  split
  · split <;> exact ⟨_, rfl⟩
  · rename_i hne
    have hi : start - cN - 2 < s.cached.length := by omega
    have e1 : subU64 310 start cN = .ok (start - cN) := by simp [subU64]; omega
    have e2 : subU64 311 (start - cN) 2 = .ok (start - cN - 2) := by simp [subU64]; omega
    simp only [e1, e2, getIdx, List.getElem?_eq_getElem hi, bind, Except.bind]
    split <;> exact ⟨_, rfl⟩

theorem endCheck_body_no_abort (hashes : List Nat) (start nextNumber nextCp : Nat)
    (h1 : 0 < start) (h2 : start ≤ nextNumber) (hge : start + hashes.length - 1 ≥ nextNumber) :
    ∃ r, (do
      let diff ← subU64 312 (start + hashes.length - 1) nextNumber
      let i0 ← subU64 313 hashes.length diff
      let idx ← subU64 314 i0 1
      let nh ← getIdx 308 hashes idx
      if nextCp ≠ nh then return some (HRes.banned HASHES_UNEXPECTED)
      return none : M (Option HRes)) = .ok r := by
  have e1 : subU64 312 (start + hashes.length - 1) nextNumber =
      .ok (start + hashes.length - 1 - nextNumber) := by simp [subU64]; omega
  have e2 : subU64 313 hashes.length (start + hashes.length - 1 - nextNumber) =
      .ok (hashes.length - (start + hashes.length - 1 - nextNumber)) := by simp [subU64]; omega
  have e3 : subU64 314 (hashes.length - (start + hashes.length - 1 - nextNumber)) 1 =
      .ok (hashes.length - (start + hashes.length - 1 - nextNumber) - 1) := by
    simp [subU64]; omega
  have hi : hashes.length - (start + hashes.length - 1 - nextNumber) - 1 < hashes.length := by
    omega
  simp only [e1, e2, e3, getIdx, List.getElem?_eq_getElem hi, bind, Except.bind]
  split <;> exact ⟨_, rfl⟩

theorem endCheck_no_abort (old : Bool) (hashes : List Nat) (start nextNumber nextCp : Nat)
    (h1 : 0 < start) (h2 : start ≤ nextNumber) :
    ∃ r, endCheck old hashes (start + hashes.length - 1) nextNumber nextCp = .ok r := by
  unfold endCheck
  cases old
  · simp only [Bool.false_eq_true, if_false]
    split
    · rename_i hc
      exact endCheck_body_no_abort hashes start nextNumber nextCp h1 h2 hc
    · exact ⟨_, rfl⟩
  · simp only [if_true]
    split
    · rename_i hc
      exact endCheck_body_no_abort hashes start nextNumber nextCp h1 h2 (by omega)
    · exact ⟨_, rfl⟩

theorem extendCache_no_abort (cached hashes : List Nat) (si start nextNumber : Nat)
    (h2 : start ≤ nextNumber) :
    ∃ r, extendCache cached hashes si (start + hashes.length - 1) nextNumber = .ok r := by
  unfold extendCache
  split
  · have e1 : subU64 315 (start + hashes.length - 1) nextNumber =
        .ok (start + hashes.length - 1 - nextNumber) := by simp [subU64]; omega
    have e2 : subU64 316 hashes.length (start + hashes.length - 1 - nextNumber) =
        .ok (hashes.length - (start + hashes.length - 1 - nextNumber)) := by simp [subU64]; omega
    simp only [e1, e2, bind, Except.bind]
    split <;> exact ⟨_, rfl⟩
  · split <;> exact ⟨_, rfl⟩

/-- the branch condition puts the next cached check point at or below the finalized one -/
theorem cached_branch_idx {I c f start : Nat} (h1 : start ≤ I * f) (h2 : I * c < start) : c < f := by
  have : I * c < I * f := by omega
  exact Nat.lt_of_mul_lt_mul_left this

theorem hashesCore_no_abort (old : Bool) (s : St) (proved : Bool) (start parent : Nat)
    (hashes : List Nat) (hc : s.finIdx < s.cps.length) :
    ∃ r, hashesCore old s proved start parent hashes = .ok r := by
  unfold hashesCore
  split
  · exact ⟨_, rfl⟩
  simp only []
  split
  · exact ⟨_, rfl⟩
  rename_i hb
  simp only [Bool.not_eq_true, Bool.and_eq_true, decide_eq_true_eq, Bool.not_eq_false'] at hb
  split
  · exact ⟨_, rfl⟩
  rename_i hcont
  obtain ⟨⟨hb1, hb2⟩, hb3⟩ := hb
  have hlt := cached_branch_idx hb1 hb2
  have i1 : s.cachedIdx < s.cps.length := by omega
  have i2 : s.cachedIdx + 1 < s.cps.length := by omega
  have hpos : 0 < start := by omega
  obtain ⟨r1, hr1⟩ := parentCheck_no_abort s start parent (s.interval * s.cachedIdx)
    s.cps[s.cachedIdx] hb2 (by omega)
  obtain ⟨r2, hr2⟩ := endCheck_no_abort old hashes start (s.interval * (s.cachedIdx + 1))
    s.cps[s.cachedIdx + 1] hpos hb3
  obtain ⟨r3, hr3⟩ := extendCache_no_abort s.cached hashes
    (s.cached.drop (start - (s.interval * s.cachedIdx + 1))).length start
    (s.interval * (s.cachedIdx + 1)) hb3
  have e1 : subU64 317 (start + hashes.length) 1 = .ok (start + hashes.length - 1) := by
    simp [subU64]; omega
  have e2 : subU64 318 start (s.interval * s.cachedIdx + 1) =
      .ok (start - (s.interval * s.cachedIdx + 1)) := by simp [subU64]; omega
  simp only [getIdx, List.getElem?_eq_getElem i1, List.getElem?_eq_getElem i2, bind, Except.bind,
    hr1]
  cases r1 with
  | some r => exact ⟨_, rfl⟩
  | none =>
    simp only [e1, hr2]
    cases r2 with
    | some r => exact ⟨_, rfl⟩
    | none =>
      simp only [e2]
      split
      · omega
      · split
        · exact ⟨_, rfl⟩
        · simp only [hr3]; exact ⟨_, rfl⟩

/-! ### inversion -/

theorem endCheck_none {hashes : List Nat} {e n nextCp : Nat}
    (h : endCheck false hashes e n nextCp = .ok none) (hge : n ≤ e) :
    e - n + 1 ≤ hashes.length ∧ hashes[hashes.length - (e - n) - 1]? = some nextCp := by
  unfold endCheck at h
  simp only [Bool.false_eq_true, if_false, ge_iff_le, if_pos hge, M.bind_eq_ok, subU64_eq_ok,
    getIdx_eq_ok] at h
  obtain ⟨d, ⟨_, rfl⟩, i0, ⟨h0, rfl⟩, idx, ⟨h1, rfl⟩, nh, hnh, h⟩ := h
  split at h
  · simp [pure, Except.pure] at h
  · rename_i heq
    simp only [ne_eq, Decidable.not_not] at heq
    exact ⟨by omega, by rw [hnh, heq]⟩

theorem extendCache_ok {cached hashes new : List Nat} {si e n : Nat}
    (h : extendCache cached hashes si e n = .ok new) :
    (n < e ∧ e - n ≤ hashes.length ∧
      new = if si < hashes.length - (e - n) then
        cached ++ (hashes.take (hashes.length - (e - n))).drop si else cached) ∨
    (e ≤ n ∧ new = if si < hashes.length then cached ++ hashes.drop si else cached) := by
  unfold extendCache at h
  split at h
  · rename_i hgt
    left
    simp only [M.bind_eq_ok, subU64_eq_ok] at h
    obtain ⟨ex, ⟨_, rfl⟩, ns, ⟨h0, rfl⟩, h⟩ := h
    refine ⟨hgt, h0, ?_⟩
    split at h <;> simp_all [pure, Except.pure]
  · rename_i hle
    right
    refine ⟨by omega, ?_⟩
    split at h <;> simp_all [pure, Except.pure]

theorem hashesCore_ok {old : Bool} {s s' : St} {proved : Bool} {start parent : Nat}
    {hashes : List Nat} {r : HRes}
    (h : hashesCore old s proved start parent hashes = .ok (s', r)) :
    s' = s ∨ ∃ new nextCp, s' = { s with cached := new } ∧
      s.interval * s.cachedIdx < start ∧ start ≤ s.interval * (s.cachedIdx + 1) ∧
      start ≤ s.interval * s.cachedIdx + s.cached.length + 1 ∧
      s.cps[s.cachedIdx + 1]? = some nextCp ∧
      endCheck old hashes (start + hashes.length - 1) (s.interval * (s.cachedIdx + 1)) nextCp =
        .ok none ∧
      extendCache s.cached hashes (s.cached.drop (start - (s.interval * s.cachedIdx + 1))).length
        (start + hashes.length - 1) (s.interval * (s.cachedIdx + 1)) = .ok new := by
  unfold hashesCore at h
  split at h
  · left; simp [pure, Except.pure] at h; exact h.1.symm
  simp only [] at h
  split at h
  · left; simp [pure, Except.pure] at h; exact h.1.symm
  rename_i hb
  simp only [Bool.not_eq_true, Bool.and_eq_true, decide_eq_true_eq, Bool.not_eq_false'] at hb
  obtain ⟨⟨hb1, hb2⟩, hb3⟩ := hb
  split at h
  · left; simp [pure, Except.pure] at h; exact h.1.symm
  rename_i hcont
  simp only [M.bind_eq_ok, getIdx_eq_ok] at h
  obtain ⟨cp, _, nextCp, hn, r1, hr1, h⟩ := h
  cases r1 with
  | some r1 => left; simp [pure, Except.pure] at h; exact h.1.symm
  | none =>
    simp only [M.bind_eq_ok, subU64_eq_ok] at h
    obtain ⟨e, ⟨_, rfl⟩, r2, hr2, h⟩ := h
    cases r2 with
    | some r2 => left; simp [pure, Except.pure] at h; exact h.1.symm
    | none =>
      simp only [M.bind_eq_ok, subU64_eq_ok] at h
      obtain ⟨off, ⟨_, rfl⟩, h⟩ := h
      split at h
      · simp [throw, throwThe, MonadExceptOf.throw] at h
      split at h
      · left; simp [pure, Except.pure] at h; exact h.1.symm
      · right
        simp only [M.bind_eq_ok] at h
        obtain ⟨new, hnew, h⟩ := h
        simp only [pure, Except.pure, Except.ok.injEq, Prod.mk.injEq] at h
        exact ⟨new, nextCp, h.1.symm, hb2, hb3, by omega, hn, hr2, hnew⟩

/-! ### the invariant: a complete cache ends with the next check point -/

/-- the cache never exceeds the interval, and a complete cache holds the next stored check point
in its last position -/
def EndChecked (s : St) : Prop :=
  s.cached.length ≤ s.interval ∧
  (0 < s.interval → s.interval ≤ s.cached.length →
    ∃ cp, s.cps[s.cachedIdx + 1]? = some cp ∧ s.cached[s.interval - 1]? = some cp)

theorem endChecked_of_empty (s : St) (h : s.cached = []) : EndChecked s := by
  refine ⟨by simp [h], fun hp hl => ?_⟩
  simp [h] at hl; omega

theorem endChecked_of_short (s : St) (h : s.cached.length < s.interval) : EndChecked s :=
  ⟨by omega, fun _ hl => by omega⟩

theorem hashes_step_endChecked {s s' : St} {proved : Bool} {start parent : Nat}
    {hashes : List Nat} {r : HRes}
    (h : onCachedHashes s proved start parent hashes = .ok (s', r)) (hi : EndChecked s) :
    EndChecked s' := by
  rcases hashesCore_ok h with rfl | ⟨new, nextCp, rfl, h1, h2, h3, hn, hec, hex⟩
  · exact hi
  obtain ⟨hlc, hcomp⟩ := hi
  have hsi : (s.cached.drop (start - (s.interval * s.cachedIdx + 1))).length =
      s.cached.length - (start - (s.interval * s.cachedIdx + 1)) := List.length_drop
  rw [Nat.mul_succ] at h2 hec hex
  rw [hsi] at hex
  generalize s.interval * s.cachedIdx = cN at *
  rcases extendCache_ok hex with ⟨hgt, hle, rfl⟩ | ⟨hle, rfl⟩
  · obtain ⟨hlen, hget⟩ := endCheck_none hec (Nat.le_of_lt hgt)
    split
    · rename_i hlt
      refine ⟨?_, fun hp _ => ⟨nextCp, hn, ?_⟩⟩
      · simp only [List.length_append, List.length_drop, List.length_take]; omega
      · show (s.cached ++ _)[s.interval - 1]? = _
        rw [List.getElem?_append_right (by omega), List.getElem?_drop, List.getElem?_take,
          if_pos (by omega), ← hget]
        congr 1; omega
    · exact ⟨hlc, hcomp⟩
  · split
    · rename_i hlt
      by_cases heq : start + hashes.length - 1 = cN + s.interval
      · obtain ⟨hlen, hget⟩ := endCheck_none hec (Nat.le_of_eq heq.symm)
        refine ⟨?_, fun hp _ => ⟨nextCp, hn, ?_⟩⟩
        · simp only [List.length_append, List.length_drop]; omega
        · show (s.cached ++ _)[s.interval - 1]? = _
          rw [List.getElem?_append_right (by omega), List.getElem?_drop, ← hget]
          congr 1; omega
      · apply endChecked_of_short
        simp only [List.length_append, List.length_drop]; omega
    · exact ⟨hlc, hcomp⟩

theorem moveTo_endChecked (s : St) (n : Nat) (hi : EndChecked s) : EndChecked (moveTo s n) := by
  unfold moveTo
  simp only []
  split
  · exact hi
  · exact endChecked_of_empty _ rfl

theorem execute_state {H : Nat → Nat → Nat} {s s' : St} {proved : Bool} {latest : List Nat}
    {m : Msg} {r : Res} (h : execute H s proved latest m = .ok (s', r)) :
    s' = s ∨ ∃ n, s' = moveTo s n := by
  cases r with
  | accepted k l =>
    obtain ⟨_, _, _, _, _, _, _, _, _, _, hs, _⟩ :=
      (execute_accepted_iff H s s' proved latest m k l).1 h
    exact .inr ⟨_, hs⟩
  | ignored w => exact .inl (execute_not_accepted H s s' proved latest m _ h (by simp))
  | banned c => exact .inl (execute_not_accepted H s s' proved latest m _ h (by simp))

theorem grow_endChecked (s : St) (more : List Nat) (f : Nat) (hi : EndChecked s) :
    EndChecked { s with cps := s.cps ++ more, finIdx := f } := by
  obtain ⟨h1, h2⟩ := hi
  refine ⟨h1, fun hp hl => ?_⟩
  obtain ⟨cp, hcp, hc⟩ := h2 hp hl
  refine ⟨cp, ?_, hc⟩
  show (s.cps ++ more)[s.cachedIdx + 1]? = some cp
  have hlt : s.cachedIdx + 1 < s.cps.length := by
    rcases Nat.lt_or_ge (s.cachedIdx + 1) s.cps.length with h | h
    · exact h
    · rw [List.getElem?_eq_none h] at hcp; exact absurd hcp (by simp)
  rw [List.getElem?_append_left hlt]; exact hcp

end Filter

import LcModel.Filter.Model
/-! # Filter layer — lemmas for C06 -/
namespace Filter

/-! ### `expectedFor` -/


theorem getIdx_eq_ok {α} (site : Nat) (l : List α) (i : Nat) (x : α) :
    getIdx site l i = .ok x ↔ l[i]? = some x := by
  unfold getIdx; split <;> simp_all

theorem expectedFor_ok {s : St} {latest : List Nat} {start parent : Nat} {expected : List Nat}
    (h : expectedFor s latest start = .ok (.ok (parent, expected))) :
    (start ≤ s.interval * s.finIdx ∧ s.interval * s.cachedIdx < start ∧
      start ≤ s.interval * (s.cachedIdx + 1) ∧ s.interval ≤ s.cached.length ∧
      ((start = s.interval * s.cachedIdx + 1 ∧ s.cps[s.cachedIdx]? = some parent ∧
          expected = s.cached) ∨
       (s.interval * s.cachedIdx + 2 ≤ start ∧
          s.cached[start - s.interval * s.cachedIdx - 2]? = some parent ∧
          expected = s.cached.drop (start - s.interval * s.cachedIdx - 2 + 1)))) ∨
    (s.interval * s.finIdx < start ∧
      ((start = s.interval * s.finIdx + 1 ∧ s.cps[s.finIdx]? = some parent ∧ expected = latest) ∨
       (s.interval * s.finIdx + 2 ≤ start ∧
          latest[start - s.interval * s.finIdx - 2]? = some parent ∧
          expected = latest.drop (start - s.interval * s.finIdx - 2 + 1)))) := by
  unfold expectedFor at h
  simp only [] at h
  split at h
  · left
    split at h
    · simp [pure, Except.pure] at h
    split at h
    · simp [pure, Except.pure] at h
    split at h
    · simp [pure, Except.pure] at h
    rename_i h1 h2 h3 h4
    simp only [Bool.or_eq_true, decide_eq_true_eq, not_or, Nat.not_le, Nat.not_lt, gt_iff_lt] at h2
    have hlen : s.interval ≤ s.cached.length := by
      rw [Nat.mul_succ] at h4; omega
    refine ⟨h1, h2.1, h2.2, hlen, ?_⟩
    split at h
    · left
      split at h
      · rename_i cp hcp
        simp [pure, Except.pure] at h
        simp_all
      · simp [throw, throwThe, MonadExceptOf.throw] at h
    · right
      rename_i hne
      simp only [M.bind_eq_ok, getIdx_eq_ok, M.pure_eq_ok] at h
      obtain ⟨a, ha, h⟩ := h
      simp only [Except.ok.injEq, Prod.mk.injEq] at h
      refine ⟨by omega, ?_, h.2.symm⟩
      rw [← h.1]; exact ha
  · right
    rename_i h1
    refine ⟨by omega, ?_⟩
    split at h
    · left
      split at h
      · rename_i cp hcp
        simp [pure, Except.pure] at h
        simp_all
      · simp [throw, throwThe, MonadExceptOf.throw] at h
    · right
      split at h
      · simp [pure, Except.pure] at h
      simp only [M.bind_eq_ok, getIdx_eq_ok, M.pure_eq_ok] at h
      obtain ⟨a, ha, h⟩ := h
      simp only [Except.ok.injEq, Prod.mk.injEq] at h
      refine ⟨by omega, ?_, h.2.symm⟩
      rw [← h.1]; exact ha

theorem expectedFor_no_abort (s : St) (latest : List Nat) (start : Nat)
    (hc : s.finIdx < s.cps.length) (hci : s.cachedIdx ≤ s.finIdx) :
    ∃ r, expectedFor s latest start = .ok r := by
  unfold expectedFor
  simp only []
  split
  · split
    · exact ⟨_, rfl⟩
    split
    · exact ⟨_, rfl⟩
    split
    · exact ⟨_, rfl⟩
    rename_i h1 h2 h3 h4
    simp only [Bool.or_eq_true, decide_eq_true_eq, not_or, Nat.not_le, Nat.not_lt, gt_iff_lt] at h2
    have hlen : s.interval ≤ s.cached.length := by
      rw [Nat.mul_succ] at h4; omega
    split
    · have : s.cachedIdx < s.cps.length := by omega
      rw [List.getElem?_eq_getElem this]
      exact ⟨_, rfl⟩
    · have h2' := h2.2
      rw [Nat.mul_succ] at h2'
      have : start - s.interval * s.cachedIdx - 2 < s.cached.length := by omega
      simp only [getIdx, List.getElem?_eq_getElem this]
      exact ⟨_, rfl⟩
  · split
    · rw [List.getElem?_eq_getElem hc]
      exact ⟨_, rfl⟩
    · split
      · exact ⟨_, rfl⟩
      · rename_i hlt
        have : start - s.interval * s.finIdx - 2 < latest.length := by omega
        simp only [getIdx, List.getElem?_eq_getElem this]
        exact ⟨_, rfl⟩



theorem execute_accepted_iff (H : Nat → Nat → Nat) (s s' : St) (proved : Bool) (latest : List Nat)
    (m : Msg) (k : Nat) (l : List Nat) :
    execute H s proved latest m = .ok (s', .accepted k l) ↔
      s.scriptsEmpty = false ∧ proved = true ∧ s.minF + 1 = m.start ∧
      m.filters.length = m.hashes.length ∧ m.filters.length ≠ 0 ∧
      ∃ parent expected, expectedFor s latest m.start = .ok (.ok (parent, expected)) ∧
        k = min m.filters.length expected.length ∧
        checkChain H parent (m.filters.take k) expected = true ∧
        s' = moveTo s (m.start - 1 + k) ∧ l = matchedOf m k := by
  unfold execute
  split
  · simp_all [pure, Except.pure]
  split
  · simp_all [pure, Except.pure]
  split
  · simp_all [pure, Except.pure]
  split
  · simp_all [pure, Except.pure]
  split
  · simp_all [pure, Except.pure]
  rename_i h1 h2 h3 h4 h5
  simp only [Bool.not_eq_true, Bool.not_eq_false', ne_eq, Decidable.not_not] at h1 h2 h3 h4
  have e0 : ∀ P : Prop, (s.scriptsEmpty = false ∧ proved = true ∧ s.minF + 1 = m.start ∧
      m.filters.length = m.hashes.length ∧ m.filters.length ≠ 0 ∧ P) ↔ P :=
    fun P => ⟨fun h => h.2.2.2.2.2, fun h => ⟨h1, h2, h3, h4, h5, h⟩⟩
  rw [e0]
  cases hx : expectedFor s latest m.start with
  | error e => simp [bind, Except.bind]
  | ok r =>
    cases r with
    | error why => simp [bind, Except.bind, pure, Except.pure]
    | ok pe =>
      obtain ⟨parent, expected⟩ := pe
      simp only [bind, Except.bind, Except.ok.injEq, Prod.mk.injEq]
      constructor
      · intro h
        split at h
        · simp [pure, Except.pure] at h
        · rename_i hcc
          simp only [pure, Except.pure, Except.ok.injEq, Prod.mk.injEq, Res.accepted.injEq] at h
          obtain ⟨hs, hk, hl⟩ := h
          subst hk
          refine ⟨parent, expected, ⟨rfl, rfl⟩, rfl, by simpa using hcc, hs.symm, hl.symm⟩
      · rintro ⟨p, e, ⟨rfl, rfl⟩, rfl, hcc, rfl, rfl⟩
        simp [hcc, pure, Except.pure]

/-! ### `execute` -/

theorem execute_no_abort (H : Nat → Nat → Nat) (s : St) (proved : Bool) (latest : List Nat) (m : Msg)
    (hc : s.finIdx < s.cps.length) (hci : s.cachedIdx ≤ s.finIdx) :
    ∃ r, execute H s proved latest m = .ok r := by
  obtain ⟨r, hr⟩ := expectedFor_no_abort s latest m.start hc hci
  unfold execute
  split
  · exact ⟨_, rfl⟩
  split
  · exact ⟨_, rfl⟩
  split
  · exact ⟨_, rfl⟩
  split
  · exact ⟨_, rfl⟩
  split
  · exact ⟨_, rfl⟩
  rw [hr]
  simp only [bind, Except.bind]
  split
  · exact ⟨_, rfl⟩
  · split
    · exact ⟨_, rfl⟩
    · exact ⟨_, rfl⟩

theorem execute_not_accepted (H : Nat → Nat → Nat) (s s' : St) (proved : Bool) (latest : List Nat)
    (m : Msg) (r : Res) (h : execute H s proved latest m = .ok (s', r))
    (hr : ∀ k l, r ≠ .accepted k l) : s' = s := by
  unfold execute at h
  split at h
  · simp [pure, Except.pure] at h; exact h.1.symm
  split at h
  · simp [pure, Except.pure] at h; exact h.1.symm
  split at h
  · simp [pure, Except.pure] at h; exact h.1.symm
  split at h
  · simp [pure, Except.pure] at h; exact h.1.symm
  split at h
  · simp [pure, Except.pure] at h; exact h.1.symm
  simp only [M.bind_eq_ok] at h
  obtain ⟨a, _, h⟩ := h
  split at h
  · simp [pure, Except.pure] at h; exact h.1.symm
  · split at h
    · simp [pure, Except.pure] at h; exact h.1.symm
    · simp only [pure, Except.pure, Except.ok.injEq, Prod.mk.injEq] at h
      exact absurd h.2.symm (hr _ _)

/-! ### `moveTo` -/

@[simp] theorem moveTo_minF (s : St) (n : Nat) : (moveTo s n).minF = n := by
  unfold moveTo; simp only []; split <;> rfl

/-! ### `checkChain` -/

theorem checkChain_authentic (H : Nat → Nat → Nat) (trueHash trueFilter : Nat → Nat)
    (hinj : ∀ a b c d, H a b = H c d → a = c ∧ b = d)
    (hch : ∀ n, trueHash (n + 1) = H (trueHash n) (trueFilter (n + 1))) :
    ∀ (fs es : List Nat) (parent n : Nat), checkChain H parent fs es = true →
      parent = trueHash n → (∀ i e, es[i]? = some e → e = trueHash (n + 1 + i)) →
      ∀ i, i < min fs.length es.length → fs[i]? = some (trueFilter (n + 1 + i)) := by
  intro fs
  induction fs with
  | nil => intro es parent n _ _ _ i hi; simp at hi
  | cons f fs ih =>
    intro es parent n hcc hp hes i hi
    cases es with
    | nil => simp at hi
    | cons e es =>
      simp only [checkChain] at hcc
      split at hcc
      · rename_i hH
        have he : e = trueHash (n + 1) := by simpa using hes 0 e (by simp)
        have hf : f = trueFilter (n + 1) := by
          rw [he, hch n, hp] at hH
          exact (hinj _ _ _ _ hH).2
        cases i with
        | zero => simp [hf]
        | succ i =>
          have := ih es e (n + 1) hcc he
            (fun j e' hj => by
              have := hes (j + 1) e' (by simpa using hj)
              rw [this]; congr 1; omega)
            i (by simp only [List.length_cons] at hi; omega)
          rw [List.getElem?_cons_succ, this]; congr 2; omega
      · exact absurd hcc (by simp)

/-! ### `matchedOf` -/

theorem mem_matchedOf (m : Msg) (k x : Nat) :
    x ∈ matchedOf m k ↔ ∃ i, i < k ∧ m.hashes[i]? = some x ∧ m.verdicts[i]? = some true := by
  unfold matchedOf
  rw [List.mem_filterMap]
  constructor
  · rintro ⟨⟨a, b⟩, hmem, hab⟩
    obtain ⟨i, hi⟩ := List.mem_iff_getElem?.1 hmem
    rw [List.getElem?_take] at hi
    split at hi
    · rename_i hlt
      rw [List.getElem?_zip_eq_some] at hi
      cases b <;> simp at hab
      subst hab
      exact ⟨i, hlt, hi.1, hi.2⟩
    · simp at hi
  · rintro ⟨i, hlt, h1, h2⟩
    refine ⟨(x, true), List.mem_iff_getElem?.2 ⟨i, ?_⟩, by simp⟩
    rw [List.getElem?_take, if_pos hlt, List.getElem?_zip_eq_some]
    exact ⟨h1, h2⟩

end Filter

import LcModel.Proofs.Model
/-! helper lemmas for the Proofs layer (shared by C02 and C16) -/
namespace Proofs

/-- the answer `m` passed every check of `SendBlocksProofProcess` for the request `req` -/
structure AcceptedB (req : BReq) (m : BMsg) : Prop where
  last : m.lastHash = req.lastHash
  matched : checkHashes req.hashes (m.headers.map (·.hash)) m.missing = true
  pow : m.powOk = true
  extra : m.v1 = true → m.v1Wf = true ∧ m.extraOk = true
  mmr : m.mmrOk = true

/-- the answer `m` passed every check of `SendTransactionsProofProcess` for the request `req` -/
structure AcceptedT (req : TReq) (m : TMsg) : Prop where
  last : m.lastHash = req.lastHash
  matched : checkHashes req.hashes (m.blocks.flatMap (·.txs)) m.missing = true
  pow : m.powOk = true
  extra : m.v1 = true → m.v1Wf = true ∧ m.extraOk = true
  mmr : m.mmrOk = true
  merkle : ∀ b ∈ m.blocks, b.merkleOk = true

/-! ### small facts -/

theorem upd_apply {α} (f : Nat → Option α) (k : Nat) (v : Option α) (x : Nat) :
    upd f k v x = if x = k then v else f x := rfl

theorem markTimeout_isSome (f : Nat → Option FetchInfo) (hs : List Nat) (k : Nat) :
    (markTimeout f hs k).isSome = (f k).isSome := by
  unfold markTimeout; split <;> simp

theorem markMissing_isSome (f : Nat → Option FetchInfo) (hs : List Nat) (k : Nat) :
    (markMissing f hs k).isSome = (f k).isSome := by
  unfold markMissing; split <;> simp

theorem markMissing_none (f : Nat → Option FetchInfo) (hs : List Nat) (k : Nat) (h : f k = none) :
    markMissing f hs k = none := by
  unfold markMissing; split <;> simp [h]

theorem isOk_OK : isOk OK = true := by decide

/-! ### `bpInner` / `onBlocksProof` inversion -/

/-- the state after a fully accepted `SendBlocksProof` -/
def bpAccept (cfg : Cfg) (s : St) (req : BReq) (m : BMsg) : St :=
  let s1 := if req.getBlocks then { s with mb := markProved s.mb (m.headers.map (·.hash)) } else s
  let s2 := m.headers.foldl (bpStore cfg m.v1) s1
  { s2 with fh := markMissing s2.fh m.missing }

theorem bpInner_cases (cfg : Cfg) (s : St) (p : Nat) (m : BMsg) :
    ((bpInner cfg s p m).2 ≠ OK ∧ (bpInner cfg s p m).1 = s) ∨
    ((bpInner cfg s p m).2 = OK ∧ ∃ req, s.conn p = true ∧ s.breq p = some req ∧
      ((req.lastHash ≠ m.lastHash ∧ (bpInner cfg s p m).1 = { s with fh := markTimeout s.fh req.hashes }) ∨
       (m.headers = [] ∧ m.lastHash = req.lastHash ∧
          (bpInner cfg s p m).1 = { s with fh := markMissing s.fh m.missing }) ∨
       (m.headers ≠ [] ∧ AcceptedB req m ∧ (bpInner cfg s p m).1 = bpAccept cfg s req m))) := by
  unfold bpInner
  by_cases hc : s.conn p = true
  · simp only [hc, Bool.not_true, Bool.false_eq_true, ↓reduceIte]
    cases hb : s.breq p with
    | none => left; simp [NOT_ON_PROCESS, OK]
    | some req =>
      simp only
      by_cases hl : req.lastHash = m.lastHash
      · simp only [hl, ne_eq, not_true_eq_false, ↓reduceIte]
        by_cases hch : checkHashes req.hashes (m.headers.map (·.hash)) m.missing = true
        · simp only [hch, Bool.not_true, Bool.false_eq_true, ↓reduceIte]
          cases hh : m.headers with
          | nil =>
            by_cases hpe : m.proofEmpty = true
            · right; simp [hpe, hl]
            · left; simp [hpe, UNEXPECTED_RESPONSE, OK]
          | cons a l =>
            simp only [List.isEmpty_cons, Bool.false_eq_true, ↓reduceIte]
            by_cases h1 : m.powOk = true
            · by_cases h2 : m.v1 = true
              · by_cases h3 : m.v1Wf = true
                · by_cases h4 : m.extraOk = true
                  · by_cases h5 : m.mmrOk = true
                    · right
                      simp only [h1, h2, h3, h4, h5, Bool.not_true, Bool.false_eq_true, ↓reduceIte, Bool.and_false, true_and]
                      refine ⟨req, rfl, Or.inr (Or.inr ⟨by simp, ⟨hl.symm, hh ▸ hch, h1, fun _ => ⟨h3, h4⟩, h5⟩, ?_⟩)⟩
                      simp [bpAccept, hh, h2]
                    · left; simp [h1, h2, h3, h4, h5, INVALID_PROOF, OK]
                  · left; simp [h1, h2, h3, h4, INVALID_PROOF, OK]
                · left; simp [h1, h2, h3, MALFORMED, OK]
              · by_cases h5 : m.mmrOk = true
                · right
                  simp only [h1, h2, h5, Bool.not_true, Bool.false_eq_true, ↓reduceIte, Bool.false_and, true_and]
                  refine ⟨req, rfl, Or.inr (Or.inr ⟨by simp, ⟨hl.symm, hh ▸ hch, h1, fun h => absurd h h2, h5⟩, ?_⟩)⟩
                  simp [bpAccept, hh, h2]
                · left; simp [h1, h2, h5, INVALID_PROOF, OK]
            · left; simp [h1, INVALID_NONCE, OK]
        · left; simp [hch, UNEXPECTED_RESPONSE, OK]
      · simp only [ne_eq, hl, not_false_eq_true, ↓reduceIte]
        by_cases he : (m.proofEmpty && m.headers.isEmpty && m.missing.isEmpty) = true
        · simp only [he, ↓reduceIte]
          by_cases hls : m.lsCode = OK
          · right; simp [hls, hl]
          · left; simp [hls]
        · left; simp [he, UNEXPECTED_RESPONSE, OK]
  · left; simp [hc, PEER_NOT_FOUND, OK]

/-! ### `tpInner` inversion -/

/-- the state after a fully accepted `SendTransactionsProof` -/
def tpAccept (cfg : Cfg) (s : St) (m : TMsg) : St :=
  let s2 := m.blocks.foldl (tpStoreBlk cfg m.v1) s
  { s2 with ft := markMissing s2.ft m.missing }

theorem tpInner_cases (cfg : Cfg) (s : St) (p : Nat) (m : TMsg) :
    ((tpInner cfg s p m).2 ≠ OK ∧ (tpInner cfg s p m).1 = s) ∨
    ((tpInner cfg s p m).2 = OK ∧ ∃ req, s.conn p = true ∧ s.treq p = some req ∧
      ((req.lastHash ≠ m.lastHash ∧ (tpInner cfg s p m).1 = { s with ft := markTimeout s.ft req.hashes }) ∨
       (m.blocks = [] ∧ m.lastHash = req.lastHash ∧
          (tpInner cfg s p m).1 = { s with ft := markMissing s.ft m.missing }) ∨
       (m.blocks ≠ [] ∧ AcceptedT req m ∧ (tpInner cfg s p m).1 = tpAccept cfg s m))) := by
  unfold tpInner
  by_cases hc : s.conn p = true
  · simp only [hc, Bool.not_true, Bool.false_eq_true, ↓reduceIte]
    cases hb : s.treq p with
    | none => left; simp [NOT_ON_PROCESS, OK]
    | some req =>
      simp only
      by_cases hl : req.lastHash = m.lastHash
      · simp only [hl, ne_eq, not_true_eq_false, ↓reduceIte]
        by_cases hch : checkHashes req.hashes (m.blocks.flatMap (·.txs)) m.missing = true
        · simp only [hch, Bool.not_true, Bool.false_eq_true, ↓reduceIte]
          cases hh : m.blocks with
          | nil =>
            by_cases hpe : m.proofEmpty = true
            · right; simp [hpe, hl]
            · left; simp [hpe, UNEXPECTED_RESPONSE, OK]
          | cons a l =>
            simp only [List.isEmpty_cons, Bool.false_eq_true, ↓reduceIte]
            by_cases h6 : (a :: l).all (·.merkleOk) = true
            · have h6' : ∀ b ∈ m.blocks, b.merkleOk = true := by
                rw [hh]; simpa using h6
              by_cases h1 : m.powOk = true
              · by_cases h2 : m.v1 = true
                · by_cases h3 : m.v1Wf = true
                  · by_cases h4 : m.extraOk = true
                    · by_cases h5 : m.mmrOk = true
                      · right
                        simp only [h1, h2, h3, h4, h5, h6, Bool.not_true, Bool.false_eq_true, ↓reduceIte, Bool.and_false, true_and]
                        refine ⟨req, rfl, Or.inr (Or.inr ⟨by simp, ⟨hl.symm, hh ▸ hch, h1, fun _ => ⟨h3, h4⟩, h5, h6'⟩, ?_⟩)⟩
                        simp [tpAccept, hh, h2]
                      · left; simp [h1, h2, h3, h4, h5, INVALID_PROOF, OK]
                    · left; simp [h1, h2, h3, h4, INVALID_PROOF, OK]
                  · left; simp [h1, h2, h3, MALFORMED, OK]
                · by_cases h5 : m.mmrOk = true
                  · right
                    simp only [h1, h2, h5, h6, Bool.not_true, Bool.false_eq_true, ↓reduceIte, Bool.false_and, true_and]
                    refine ⟨req, rfl, Or.inr (Or.inr ⟨by simp, ⟨hl.symm, hh ▸ hch, h1, fun h => absurd h h2, h5, h6'⟩, ?_⟩)⟩
                    simp [tpAccept, hh, h2]
                  · left; simp [h1, h2, h5, INVALID_PROOF, OK]
              · left; simp [h1, INVALID_NONCE, OK]
            · left
              simp only [h6, Bool.not_false, ↓reduceIte]
              refine ⟨?_, ?_⟩ <;> (repeat' split) <;> simp [INVALID_NONCE, MALFORMED, INVALID_PROOF, OK]
        · left; simp [hch, UNEXPECTED_RESPONSE, OK]
      · simp only [ne_eq, hl, not_false_eq_true, ↓reduceIte]
        by_cases he : (m.proofEmpty && m.blocks.isEmpty && m.missing.isEmpty) = true
        · simp only [he, ↓reduceIte]
          by_cases hls : m.lsCode = OK
          · right; simp [hls, hl]
          · left; simp [hls]
        · left; simp [he, UNEXPECTED_RESPONSE, OK]
  · left; simp [hc, PEER_NOT_FOUND, OK]

/-! ### the storing loop of `SendBlocksProof` -/

/-- one round: nothing, or the fetch is consumed and the two records are written -/
theorem bpStore_step (cfg : Cfg) (v1 : Bool) (s : St) (h : Hdr) :
    bpStore cfg v1 s h = s ∨
    ((s.fh h.hash).isSome = true ∧ ∃ e, (cfg.keepExt = false → e = if v1 then h.ext else none) ∧
      bpStore cfg v1 s h = { s with fh := upd s.fh h.hash none,
                                    hdr := upd s.hdr h.hash (some ⟨h.hash, h.number, e⟩),
                                    num := upd s.num h.number (some h.hash) }) := by
  unfold bpStore
  by_cases hf : (s.fh h.hash).isSome = true
  · right
    refine ⟨hf, _, ?_, by simp only [hf, ↓reduceIte, storeHdr]; rfl⟩
    intro hk; simp [hk]
  · left; simp [hf]

theorem bpStore_fold_frame (cfg : Cfg) (v1 : Bool) (l : List Hdr) (s : St) :
    (l.foldl (bpStore cfg v1) s).conn = s.conn ∧ (l.foldl (bpStore cfg v1) s).breq = s.breq ∧
    (l.foldl (bpStore cfg v1) s).treq = s.treq ∧ (l.foldl (bpStore cfg v1) s).ft = s.ft ∧
    (l.foldl (bpStore cfg v1) s).mb = s.mb ∧ (l.foldl (bpStore cfg v1) s).txr = s.txr := by
  induction l generalizing s with
  | nil => simp
  | cons a l ih =>
    simp only [List.foldl_cons]
    rcases bpStore_step cfg v1 s a with h | ⟨_, e, _, h⟩
    · rw [h]; exact ih s
    · have := ih (bpStore cfg v1 s a); rw [h] at this ⊢; exact this

theorem bpStore_fold_fh (cfg : Cfg) (v1 : Bool) (l : List Hdr) (s : St) (k : Nat) :
    (l.foldl (bpStore cfg v1) s).fh k = none ∨ (l.foldl (bpStore cfg v1) s).fh k = s.fh k := by
  induction l generalizing s with
  | nil => simp
  | cons a l ih =>
    simp only [List.foldl_cons]
    rcases bpStore_step cfg v1 s a with h | ⟨_, e, _, h⟩
    · rw [h]; exact ih s
    · rcases ih (bpStore cfg v1 s a) with h1 | h1
      · exact Or.inl h1
      · rw [h1, h]; simp only [upd_apply]; split <;> simp

theorem bpStore_fold_hdr (cfg : Cfg) (v1 : Bool) (l : List Hdr) (s : St) (k : Nat) :
    (l.foldl (bpStore cfg v1) s).hdr k = s.hdr k ∨
    ∃ hd ∈ l, hd.hash = k ∧ (s.fh k).isSome = true ∧ (l.foldl (bpStore cfg v1) s).fh k = none ∧
      ∃ e, (l.foldl (bpStore cfg v1) s).hdr k = some ⟨k, hd.number, e⟩ ∧
        (cfg.keepExt = false → e = if v1 then hd.ext else none) := by
  induction l generalizing s with
  | nil => simp
  | cons a l ih =>
    simp only [List.foldl_cons]
    rcases bpStore_step cfg v1 s a with h | ⟨hs, e, he, h⟩
    · rw [h]
      rcases ih s with h1 | ⟨hd, hm, h1⟩
      · exact Or.inl h1
      · exact Or.inr ⟨hd, List.mem_cons_of_mem _ hm, h1⟩
    · have hfh := bpStore_fold_fh cfg v1 l (bpStore cfg v1 s a) k
      rcases ih (bpStore cfg v1 s a) with h1 | ⟨hd, hm, hk, hsome, h1⟩
      · by_cases hka : k = a.hash
        · right
          refine ⟨a, List.mem_cons_self, hka.symm, hka ▸ hs, ?_, e, ?_, he⟩
          · rcases hfh with h2 | h2
            · exact h2
            · rw [h2, h]; simp [upd_apply, hka]
          · rw [h1, h]; simp [upd_apply, hka]
        · left; rw [h1, h]; simp [upd_apply, hka]
      · right
        refine ⟨hd, List.mem_cons_of_mem _ hm, hk, ?_, h1⟩
        rw [h] at hsome; simp only [upd_apply] at hsome
        split at hsome
        · simp at hsome
        · exact hsome

theorem bpStore_fold_num (cfg : Cfg) (v1 : Bool) (l : List Hdr) (s : St) (n : Nat) :
    (l.foldl (bpStore cfg v1) s).num n = s.num n ∨
    ∃ hd ∈ l, hd.number = n ∧ (s.fh hd.hash).isSome = true ∧
      (l.foldl (bpStore cfg v1) s).num n = some hd.hash := by
  induction l generalizing s with
  | nil => simp
  | cons a l ih =>
    simp only [List.foldl_cons]
    rcases bpStore_step cfg v1 s a with h | ⟨hs, e, he, h⟩
    · rw [h]
      rcases ih s with h1 | ⟨hd, hm, h1⟩
      · exact Or.inl h1
      · exact Or.inr ⟨hd, List.mem_cons_of_mem _ hm, h1⟩
    · rcases ih (bpStore cfg v1 s a) with h1 | ⟨hd, hm, hk, hsome, h1⟩
      · by_cases hka : n = a.number
        · right
          refine ⟨a, List.mem_cons_self, hka.symm, hs, ?_⟩
          rw [h1, h]; simp [upd_apply, hka]
        · left; rw [h1, h]; simp [upd_apply, hka]
      · right
        refine ⟨hd, List.mem_cons_of_mem _ hm, hk, ?_, h1⟩
        rw [h] at hsome; simp only [upd_apply] at hsome
        split at hsome
        · simp at hsome
        · exact hsome

/-- the state the storing loop starts from -/
def bpStart (s : St) (req : BReq) (m : BMsg) : St :=
  if req.getBlocks then { s with mb := markProved s.mb (m.headers.map (·.hash)) } else s

theorem bpStart_frame (s : St) (req : BReq) (m : BMsg) :
    (bpStart s req m).conn = s.conn ∧ (bpStart s req m).breq = s.breq ∧ (bpStart s req m).treq = s.treq ∧
    (bpStart s req m).fh = s.fh ∧ (bpStart s req m).ft = s.ft ∧ (bpStart s req m).hdr = s.hdr ∧
    (bpStart s req m).num = s.num ∧ (bpStart s req m).txr = s.txr ∧
    ((bpStart s req m).mb = s.mb ∨
      (req.getBlocks = true ∧ (bpStart s req m).mb = markProved s.mb (m.headers.map (·.hash)))) := by
  unfold bpStart; split <;> simp_all

theorem bpAccept_eq (cfg : Cfg) (s : St) (req : BReq) (m : BMsg) :
    bpAccept cfg s req m =
      { m.headers.foldl (bpStore cfg m.v1) (bpStart s req m) with
        fh := markMissing (m.headers.foldl (bpStore cfg m.v1) (bpStart s req m)).fh m.missing } := rfl

theorem bpAccept_frame (cfg : Cfg) (s : St) (req : BReq) (m : BMsg) :
    (bpAccept cfg s req m).conn = s.conn ∧ (bpAccept cfg s req m).breq = s.breq ∧
    (bpAccept cfg s req m).treq = s.treq ∧ (bpAccept cfg s req m).ft = s.ft ∧
    (bpAccept cfg s req m).txr = s.txr ∧
    ((bpAccept cfg s req m).mb = s.mb ∨
      (req.getBlocks = true ∧ (bpAccept cfg s req m).mb = markProved s.mb (m.headers.map (·.hash)))) := by
  have h1 := bpStore_fold_frame cfg m.v1 m.headers (bpStart s req m)
  have h2 := bpStart_frame s req m
  rw [bpAccept_eq]
  simp only
  refine ⟨h1.1.trans h2.1, h1.2.1.trans h2.2.1, h1.2.2.1.trans h2.2.2.1, h1.2.2.2.1.trans h2.2.2.2.2.1,
    h1.2.2.2.2.2.trans h2.2.2.2.2.2.2.2.1, ?_⟩
  rw [h1.2.2.2.2.1]; exact h2.2.2.2.2.2.2.2.2

theorem bpAccept_hdr (cfg : Cfg) (s : St) (req : BReq) (m : BMsg) (k : Nat) :
    (bpAccept cfg s req m).hdr k = s.hdr k ∨
    ∃ hd ∈ m.headers, hd.hash = k ∧ (s.fh k).isSome = true ∧ (bpAccept cfg s req m).fh k = none ∧
      ∃ e, (bpAccept cfg s req m).hdr k = some ⟨k, hd.number, e⟩ ∧
        (cfg.keepExt = false → e = if m.v1 then hd.ext else none) := by
  have h2 := bpStart_frame s req m
  rw [bpAccept_eq]; simp only
  rcases bpStore_fold_hdr cfg m.v1 m.headers (bpStart s req m) k with h | ⟨hd, hm, hk, hs, hf, h⟩
  · left; rw [h, h2.2.2.2.2.2.1]
  · right; exact ⟨hd, hm, hk, by rw [← h2.2.2.2.1]; exact hs, markMissing_none _ _ _ hf, h⟩

theorem bpAccept_num (cfg : Cfg) (s : St) (req : BReq) (m : BMsg) (n : Nat) :
    (bpAccept cfg s req m).num n = s.num n ∨
    ∃ hd ∈ m.headers, hd.number = n ∧ (s.fh hd.hash).isSome = true ∧
      (bpAccept cfg s req m).num n = some hd.hash := by
  have h2 := bpStart_frame s req m
  rw [bpAccept_eq]; simp only
  rcases bpStore_fold_num cfg m.v1 m.headers (bpStart s req m) n with h | ⟨hd, hm, hk, hs, h⟩
  · left; rw [h, h2.2.2.2.2.2.2.1]
  · right; exact ⟨hd, hm, hk, by rw [← h2.2.2.2.1]; exact hs, h⟩

/-- `execute` for blocks proofs, by verdict -/
theorem onBlocksProof_cases (cfg : Cfg) (s s' : St) (p : Nat) (m : BMsg) (code : Nat)
    (h : onBlocksProof cfg s p m = (s', code)) :
    (code ≠ OK ∧ ∃ s1, (s1 = s ∨ (cfg.markOnReject = true ∧ s1 = markPeerH s p)) ∧
      s' = { s1 with breq := if s1.conn p then upd s1.breq p none else s1.breq }) ∨
    (code = OK ∧ ∃ req s1, s.conn p = true ∧ s.breq p = some req ∧
      s' = { s1 with breq := if s1.conn p then upd s1.breq p none else s1.breq } ∧
      ((req.lastHash ≠ m.lastHash ∧ s1 = { s with fh := markTimeout s.fh req.hashes }) ∨
       (m.headers = [] ∧ m.lastHash = req.lastHash ∧ s1 = { s with fh := markMissing s.fh m.missing }) ∨
       (m.headers ≠ [] ∧ AcceptedB req m ∧ s1 = bpAccept cfg s req m))) := by
  unfold onBlocksProof at h
  simp only [Prod.mk.injEq] at h
  obtain ⟨h1, h2⟩ := h
  rcases bpInner_cases cfg s p m with ⟨hc, hs⟩ | ⟨hc, req, hconn, hreq, hs⟩
  · left
    rw [h2] at hc
    refine ⟨hc, _, ?_, h1.symm⟩
    rw [hs]
    split
    · right; simp_all
    · left; rfl
  · right
    rw [h2] at hc
    refine ⟨hc, req, (bpInner cfg s p m).1, hconn, hreq, ?_, hs⟩
    rw [← h1, h2, hc]; simp [isOk_OK]

theorem markPeerH_cases (s : St) (p : Nat) :
    markPeerH s p = s ∨ ∃ r, slotB s p = some r ∧ markPeerH s p = { s with fh := markTimeout s.fh r.hashes } := by
  unfold markPeerH; split
  · next r hr => right; exact ⟨r, hr, rfl⟩
  · left; rfl

theorem markPeerT_cases (s : St) (p : Nat) :
    markPeerT s p = s ∨ ∃ r, slotT s p = some r ∧ markPeerT s p = { s with ft := markTimeout s.ft r.hashes } := by
  unfold markPeerT; split
  · next r hr => right; exact ⟨r, hr, rfl⟩
  · left; rfl

theorem markPeerH_frame (s : St) (p : Nat) :
    (markPeerH s p).conn = s.conn ∧ (markPeerH s p).breq = s.breq ∧ (markPeerH s p).treq = s.treq ∧
    (markPeerH s p).ft = s.ft ∧ (markPeerH s p).mb = s.mb ∧ (markPeerH s p).hdr = s.hdr ∧
    (markPeerH s p).num = s.num ∧ (markPeerH s p).txr = s.txr ∧
    ∀ k, ((markPeerH s p).fh k).isSome = (s.fh k).isSome := by
  rcases markPeerH_cases s p with h | ⟨r, _, h⟩ <;> rw [h] <;> simp [markTimeout_isSome]

theorem markPeerT_frame (s : St) (p : Nat) :
    (markPeerT s p).conn = s.conn ∧ (markPeerT s p).breq = s.breq ∧ (markPeerT s p).treq = s.treq ∧
    (markPeerT s p).fh = s.fh ∧ (markPeerT s p).mb = s.mb ∧ (markPeerT s p).hdr = s.hdr ∧
    (markPeerT s p).num = s.num ∧ (markPeerT s p).txr = s.txr ∧
    ∀ k, ((markPeerT s p).ft k).isSome = (s.ft k).isSome := by
  rcases markPeerT_cases s p with h | ⟨r, _, h⟩ <;> rw [h] <;> simp [markTimeout_isSome]

/-! ### `markProved` -/

theorem markProved_hash (mb : List MEntry) (hs : List Nat) :
    (markProved mb hs).map (·.hash) = mb.map (·.hash) := by
  unfold markProved
  rw [List.map_map]
  apply List.map_congr_left
  intro e _; simp only [Function.comp]; split <;> rfl

theorem markProved_body (mb : List MEntry) (hs : List Nat) :
    (markProved mb hs).map (·.body) = mb.map (·.body) := by
  unfold markProved
  rw [List.map_map]
  apply List.map_congr_left
  intro e _; simp only [Function.comp]; split <;> rfl

theorem markProved_mem (mb : List MEntry) (hs : List Nat) (e' : MEntry) (h : e' ∈ markProved mb hs) :
    ∃ e ∈ mb, e'.hash = e.hash ∧ e'.body = e.body ∧
      (e'.proved = true → e.proved = true ∨ e.hash ∈ hs) ∧ (e.proved = true → e'.proved = true) := by
  unfold markProved at h
  rw [List.mem_map] at h
  obtain ⟨e, he, rfl⟩ := h
  refine ⟨e, he, ?_⟩
  split
  · next hc => simp_all
  · simp; exact Or.inl

/-! ### request matching -/

theorem pigeonhole (l l' : List Nat) (hn : l.Nodup) (hsub : ∀ x ∈ l, x ∈ l')
    (hlen : l'.length ≤ l.length) : ∀ y ∈ l', y ∈ l := by
  induction l generalizing l' with
  | nil =>
    intro y hy
    have : l' = [] := List.eq_nil_of_length_eq_zero (by simpa using hlen)
    simp [this] at hy
  | cons a t ih =>
    have ha : a ∈ l' := hsub a List.mem_cons_self
    rw [List.nodup_cons] at hn
    have hlen' : (l'.erase a).length ≤ t.length := by
      rw [List.length_erase_of_mem ha]; simp at hlen; omega
    have hsub' : ∀ x ∈ t, x ∈ l'.erase a := by
      intro x hx
      have hxa : x ≠ a := fun h => hn.1 (h ▸ hx)
      exact (List.mem_erase_of_ne hxa).2 (hsub x (List.mem_cons_of_mem _ hx))
    have := ih (l'.erase a) hn.2 hsub' hlen'
    intro y hy
    by_cases hya : y = a
    · simp [hya]
    · exact List.mem_cons_of_mem _ (this y ((List.mem_erase_of_ne hya).2 hy))

theorem checkHashes_sub (req recv miss : List Nat) (h : checkHashes req recv miss = true)
    (hn : req.Nodup) : ∀ y, y ∈ recv ∨ y ∈ miss → y ∈ req := by
  unfold checkHashes at h
  simp only [Bool.and_eq_true, beq_iff_eq, List.all_eq_true, Bool.or_eq_true,
    List.contains_iff_mem] at h
  have := pigeonhole req (recv ++ miss) hn (fun x hx => by simpa using h.2 x hx) (by simp; omega)
  intro y hy
  exact this y (by simpa using hy)

/-! ### the storing loops of `SendTransactionsProof` -/

theorem tpStoreTx_step (cfg : Cfg) (h : Hdr) (s : St) (t : Nat) :
    tpStoreTx cfg h s t = s ∨
    ((s.ft t).isSome = true ∧ ∃ e txr', (txr' = s.txr ∨ txr' = upd s.txr t (some (h.number, NO_INDEX))) ∧
      tpStoreTx cfg h s t = { s with ft := upd s.ft t none, fh := upd s.fh h.hash none,
                                     hdr := upd s.hdr h.hash (some ⟨h.hash, h.number, e⟩),
                                     num := upd s.num h.number (some h.hash), txr := txr' }) := by
  unfold tpStoreTx
  by_cases hf : (s.ft t).isSome = true
  · right
    simp only [hf, ↓reduceIte, addFetchedTx, storeHdr]
    refine ⟨trivial, ?_⟩
    split
    · exact ⟨_, _, Or.inl rfl, rfl⟩
    · exact ⟨_, _, Or.inr rfl, rfl⟩
  · left; simp [hf]

theorem some_of_upd_none {α} {f : Nat → Option α} {k x : Nat} (h : (upd f k none x).isSome = true) :
    (f x).isSome = true := by
  simp only [upd_apply] at h
  split at h
  · simp at h
  · exact h

theorem tpStoreTx_fold_frame (cfg : Cfg) (h : Hdr) (l : List Nat) (s : St) :
    (l.foldl (tpStoreTx cfg h) s).conn = s.conn ∧ (l.foldl (tpStoreTx cfg h) s).breq = s.breq ∧
    (l.foldl (tpStoreTx cfg h) s).treq = s.treq ∧ (l.foldl (tpStoreTx cfg h) s).mb = s.mb := by
  induction l generalizing s with
  | nil => simp
  | cons a l ih =>
    simp only [List.foldl_cons]
    rcases tpStoreTx_step cfg h s a with h1 | ⟨_, e, x, _, h1⟩
    · rw [h1]; exact ih s
    · have := ih (tpStoreTx cfg h s a); rw [h1] at this ⊢; exact this

theorem tpStoreTx_fold_ft (cfg : Cfg) (h : Hdr) (l : List Nat) (s : St) (k : Nat) :
    (l.foldl (tpStoreTx cfg h) s).ft k = none ∨ (l.foldl (tpStoreTx cfg h) s).ft k = s.ft k := by
  induction l generalizing s with
  | nil => simp
  | cons a l ih =>
    simp only [List.foldl_cons]
    rcases tpStoreTx_step cfg h s a with h1 | ⟨_, e, x, _, h1⟩
    · rw [h1]; exact ih s
    · rcases ih (tpStoreTx cfg h s a) with h2 | h2
      · exact Or.inl h2
      · rw [h2, h1]; simp only [upd_apply]; split <;> simp

theorem tpStoreTx_fold_fh (cfg : Cfg) (h : Hdr) (l : List Nat) (s : St) (k : Nat) :
    (l.foldl (tpStoreTx cfg h) s).fh k = none ∨ (l.foldl (tpStoreTx cfg h) s).fh k = s.fh k := by
  induction l generalizing s with
  | nil => simp
  | cons a l ih =>
    simp only [List.foldl_cons]
    rcases tpStoreTx_step cfg h s a with h1 | ⟨_, e, x, _, h1⟩
    · rw [h1]; exact ih s
    · rcases ih (tpStoreTx cfg h s a) with h2 | h2
      · exact Or.inl h2
      · rw [h2, h1]; simp only [upd_apply]; split <;> simp

theorem tpStoreTx_ft_mono (cfg : Cfg) (h : Hdr) (s : St) (a t : Nat)
    (hs : ((tpStoreTx cfg h s a).ft t).isSome = true) : (s.ft t).isSome = true := by
  rcases tpStoreTx_step cfg h s a with h1 | ⟨_, e, x, _, h1⟩
  · rw [h1] at hs; exact hs
  · rw [h1] at hs; exact some_of_upd_none hs

theorem tpStoreTx_fold_txr (cfg : Cfg) (h : Hdr) (l : List Nat) (s : St) (t : Nat) :
    (l.foldl (tpStoreTx cfg h) s).txr t = s.txr t ∨
    (t ∈ l ∧ (s.ft t).isSome = true ∧ (l.foldl (tpStoreTx cfg h) s).ft t = none ∧
      (l.foldl (tpStoreTx cfg h) s).txr t = some (h.number, NO_INDEX)) := by
  induction l generalizing s with
  | nil => simp
  | cons a l ih =>
    simp only [List.foldl_cons]
    have hft := tpStoreTx_fold_ft cfg h l (tpStoreTx cfg h s a) t
    rcases ih (tpStoreTx cfg h s a) with h2 | ⟨hm, hsome, h2⟩
    · rcases tpStoreTx_step cfg h s a with h1 | ⟨hs, e, x, hx, h1⟩
      · left; rw [h2, h1]
      · rcases hx with rfl | rfl
        · left; rw [h2, h1]
        · by_cases hta : t = a
          · right
            refine ⟨by simp [hta], hta ▸ hs, ?_, ?_⟩
            · rcases hft with h3 | h3
              · exact h3
              · rw [h3, h1]; simp [upd_apply, hta]
            · rw [h2, h1]; simp [upd_apply, hta]
          · left; rw [h2, h1]; simp [upd_apply, hta]
    · right
      exact ⟨List.mem_cons_of_mem _ hm, tpStoreTx_ft_mono cfg h s a t hsome, h2⟩

theorem tpStoreTx_fold_hdr (cfg : Cfg) (h : Hdr) (l : List Nat) (s : St) (k : Nat) :
    (l.foldl (tpStoreTx cfg h) s).hdr k = s.hdr k ∨
    (h.hash = k ∧ ∃ t ∈ l, (s.ft t).isSome = true) := by
  induction l generalizing s with
  | nil => simp
  | cons a l ih =>
    simp only [List.foldl_cons]
    rcases ih (tpStoreTx cfg h s a) with h2 | ⟨hk, t, hm, hsome⟩
    · rcases tpStoreTx_step cfg h s a with h1 | ⟨hs, e, x, hx, h1⟩
      · left; rw [h2, h1]
      · by_cases hka : k = h.hash
        · right; exact ⟨hka.symm, a, List.mem_cons_self, hs⟩
        · left; rw [h2, h1]; simp [upd_apply, hka]
    · right
      exact ⟨hk, t, List.mem_cons_of_mem _ hm, tpStoreTx_ft_mono cfg h s a t hsome⟩

theorem tpStoreTx_fold_num (cfg : Cfg) (h : Hdr) (l : List Nat) (s : St) (n : Nat) :
    (l.foldl (tpStoreTx cfg h) s).num n = s.num n ∨
    (h.number = n ∧ (l.foldl (tpStoreTx cfg h) s).num n = some h.hash ∧
      ∃ t ∈ l, (s.ft t).isSome = true) := by
  induction l generalizing s with
  | nil => simp
  | cons a l ih =>
    simp only [List.foldl_cons]
    rcases ih (tpStoreTx cfg h s a) with h2 | ⟨hk, hv, t, hm, hsome⟩
    · rcases tpStoreTx_step cfg h s a with h1 | ⟨hs, e, x, hx, h1⟩
      · left; rw [h2, h1]
      · by_cases hka : n = h.number
        · right
          refine ⟨hka.symm, ?_, a, List.mem_cons_self, hs⟩
          rw [h2, h1]; simp [upd_apply, hka]
        · left; rw [h2, h1]; simp [upd_apply, hka]
    · right
      exact ⟨hk, hv, t, List.mem_cons_of_mem _ hm, tpStoreTx_ft_mono cfg h s a t hsome⟩

/-! the loop over the filtered blocks -/

theorem tpStoreBlk_ft_mono (cfg : Cfg) (v1 : Bool) (s : St) (b : FBlk) (t : Nat)
    (hs : ((tpStoreBlk cfg v1 s b).ft t).isSome = true) : (s.ft t).isSome = true := by
  unfold tpStoreBlk at hs
  rcases tpStoreTx_fold_ft cfg _ b.txs s t with h | h
  · rw [h] at hs; simp at hs
  · rw [h] at hs; exact hs

theorem tpStoreBlk_fold_frame (cfg : Cfg) (v1 : Bool) (l : List FBlk) (s : St) :
    (l.foldl (tpStoreBlk cfg v1) s).conn = s.conn ∧ (l.foldl (tpStoreBlk cfg v1) s).breq = s.breq ∧
    (l.foldl (tpStoreBlk cfg v1) s).treq = s.treq ∧ (l.foldl (tpStoreBlk cfg v1) s).mb = s.mb := by
  induction l generalizing s with
  | nil => simp
  | cons a l ih =>
    simp only [List.foldl_cons]
    have h1 := ih (tpStoreBlk cfg v1 s a)
    have h2 := tpStoreTx_fold_frame cfg { a.header with ext := if v1 then a.header.ext else none } a.txs s
    unfold tpStoreBlk at h1 ⊢
    exact ⟨h1.1.trans h2.1, h1.2.1.trans h2.2.1, h1.2.2.1.trans h2.2.2.1, h1.2.2.2.trans h2.2.2.2⟩

theorem tpStoreBlk_fold_ft (cfg : Cfg) (v1 : Bool) (l : List FBlk) (s : St) (k : Nat) :
    (l.foldl (tpStoreBlk cfg v1) s).ft k = none ∨ (l.foldl (tpStoreBlk cfg v1) s).ft k = s.ft k := by
  induction l generalizing s with
  | nil => simp
  | cons a l ih =>
    simp only [List.foldl_cons]
    rcases ih (tpStoreBlk cfg v1 s a) with h1 | h1
    · exact Or.inl h1
    · rw [h1]; unfold tpStoreBlk; exact tpStoreTx_fold_ft cfg _ a.txs s k

theorem tpStoreBlk_fold_fh (cfg : Cfg) (v1 : Bool) (l : List FBlk) (s : St) (k : Nat) :
    (l.foldl (tpStoreBlk cfg v1) s).fh k = none ∨ (l.foldl (tpStoreBlk cfg v1) s).fh k = s.fh k := by
  induction l generalizing s with
  | nil => simp
  | cons a l ih =>
    simp only [List.foldl_cons]
    rcases ih (tpStoreBlk cfg v1 s a) with h1 | h1
    · exact Or.inl h1
    · rw [h1]; unfold tpStoreBlk; exact tpStoreTx_fold_fh cfg _ a.txs s k

theorem tpStoreBlk_ft (cfg : Cfg) (v1 : Bool) (s : St) (b : FBlk) (k : Nat) :
    (tpStoreBlk cfg v1 s b).ft k = none ∨ (tpStoreBlk cfg v1 s b).ft k = s.ft k :=
  tpStoreTx_fold_ft cfg _ b.txs s k

theorem tpStoreBlk_txr (cfg : Cfg) (v1 : Bool) (s : St) (b : FBlk) (t : Nat) :
    (tpStoreBlk cfg v1 s b).txr t = s.txr t ∨
    (t ∈ b.txs ∧ (s.ft t).isSome = true ∧ (tpStoreBlk cfg v1 s b).ft t = none ∧
      (tpStoreBlk cfg v1 s b).txr t = some (b.header.number, NO_INDEX)) :=
  tpStoreTx_fold_txr cfg _ b.txs s t

theorem tpStoreBlk_hdr (cfg : Cfg) (v1 : Bool) (s : St) (b : FBlk) (k : Nat) :
    (tpStoreBlk cfg v1 s b).hdr k = s.hdr k ∨
    (b.header.hash = k ∧ ∃ t ∈ b.txs, (s.ft t).isSome = true) :=
  tpStoreTx_fold_hdr cfg _ b.txs s k

theorem tpStoreBlk_num (cfg : Cfg) (v1 : Bool) (s : St) (b : FBlk) (n : Nat) :
    (tpStoreBlk cfg v1 s b).num n = s.num n ∨
    (b.header.number = n ∧ (tpStoreBlk cfg v1 s b).num n = some b.header.hash ∧
      ∃ t ∈ b.txs, (s.ft t).isSome = true) :=
  tpStoreTx_fold_num cfg _ b.txs s n

theorem tpStoreBlk_fold_txr (cfg : Cfg) (v1 : Bool) (l : List FBlk) (s : St) (t : Nat) :
    (l.foldl (tpStoreBlk cfg v1) s).txr t = s.txr t ∨
    ∃ b ∈ l, t ∈ b.txs ∧ (s.ft t).isSome = true ∧ (l.foldl (tpStoreBlk cfg v1) s).ft t = none ∧
      (l.foldl (tpStoreBlk cfg v1) s).txr t = some (b.header.number, NO_INDEX) := by
  induction l generalizing s with
  | nil => simp
  | cons a l ih =>
    simp only [List.foldl_cons]
    have hft := tpStoreBlk_fold_ft cfg v1 l (tpStoreBlk cfg v1 s a) t
    rcases ih (tpStoreBlk cfg v1 s a) with h2 | ⟨b, hb, hm, hsome, h2⟩
    · rw [h2]
      rcases tpStoreBlk_txr cfg v1 s a t with h1 | ⟨hm, hs, hn, h1⟩
      · exact Or.inl h1
      · right
        refine ⟨a, List.mem_cons_self, hm, hs, ?_, h1⟩
        rcases hft with h3 | h3
        · exact h3
        · rw [h3]; exact hn
    · right
      exact ⟨b, List.mem_cons_of_mem _ hb, hm, tpStoreBlk_ft_mono cfg v1 s a t hsome, h2⟩

theorem tpStoreBlk_fold_hdr (cfg : Cfg) (v1 : Bool) (l : List FBlk) (s : St) (k : Nat) :
    (l.foldl (tpStoreBlk cfg v1) s).hdr k = s.hdr k ∨
    ∃ b ∈ l, b.header.hash = k ∧ ∃ t ∈ b.txs, (s.ft t).isSome = true := by
  induction l generalizing s with
  | nil => simp
  | cons a l ih =>
    simp only [List.foldl_cons]
    rcases ih (tpStoreBlk cfg v1 s a) with h2 | ⟨b, hb, hk, t, hm, hsome⟩
    · rw [h2]
      rcases tpStoreBlk_hdr cfg v1 s a k with h1 | ⟨hk, h1⟩
      · exact Or.inl h1
      · exact Or.inr ⟨a, List.mem_cons_self, hk, h1⟩
    · right
      exact ⟨b, List.mem_cons_of_mem _ hb, hk, t, hm, tpStoreBlk_ft_mono cfg v1 s a t hsome⟩

theorem tpStoreBlk_fold_num (cfg : Cfg) (v1 : Bool) (l : List FBlk) (s : St) (n : Nat) :
    (l.foldl (tpStoreBlk cfg v1) s).num n = s.num n ∨
    ∃ b ∈ l, b.header.number = n ∧ (l.foldl (tpStoreBlk cfg v1) s).num n = some b.header.hash ∧
      ∃ t ∈ b.txs, (s.ft t).isSome = true := by
  induction l generalizing s with
  | nil => simp
  | cons a l ih =>
    simp only [List.foldl_cons]
    rcases ih (tpStoreBlk cfg v1 s a) with h2 | ⟨b, hb, hk, hv, t, hm, hsome⟩
    · rw [h2]
      rcases tpStoreBlk_num cfg v1 s a n with h1 | ⟨hk, h1⟩
      · exact Or.inl h1
      · exact Or.inr ⟨a, List.mem_cons_self, hk, h1⟩
    · right
      exact ⟨b, List.mem_cons_of_mem _ hb, hk, hv, t, hm, tpStoreBlk_ft_mono cfg v1 s a t hsome⟩

theorem tpAccept_eq (cfg : Cfg) (s : St) (m : TMsg) :
    tpAccept cfg s m =
      { m.blocks.foldl (tpStoreBlk cfg m.v1) s with
        ft := markMissing (m.blocks.foldl (tpStoreBlk cfg m.v1) s).ft m.missing } := rfl

theorem tpAccept_frame (cfg : Cfg) (s : St) (m : TMsg) :
    (tpAccept cfg s m).conn = s.conn ∧ (tpAccept cfg s m).breq = s.breq ∧
    (tpAccept cfg s m).treq = s.treq ∧ (tpAccept cfg s m).mb = s.mb := by
  rw [tpAccept_eq]; exact tpStoreBlk_fold_frame cfg m.v1 m.blocks s

theorem tpAccept_txr (cfg : Cfg) (s : St) (m : TMsg) (t : Nat) :
    (tpAccept cfg s m).txr t = s.txr t ∨
    ∃ b ∈ m.blocks, t ∈ b.txs ∧ (s.ft t).isSome = true ∧ (tpAccept cfg s m).ft t = none ∧
      (tpAccept cfg s m).txr t = some (b.header.number, NO_INDEX) := by
  rw [tpAccept_eq]; simp only
  rcases tpStoreBlk_fold_txr cfg m.v1 m.blocks s t with h | ⟨b, hb, hm, hs, hf, h⟩
  · exact Or.inl h
  · exact Or.inr ⟨b, hb, hm, hs, markMissing_none _ _ _ hf, h⟩

theorem tpAccept_hdr (cfg : Cfg) (s : St) (m : TMsg) (k : Nat) :
    (tpAccept cfg s m).hdr k = s.hdr k ∨
    ∃ b ∈ m.blocks, b.header.hash = k ∧ ∃ t ∈ b.txs, (s.ft t).isSome = true := by
  rw [tpAccept_eq]; exact tpStoreBlk_fold_hdr cfg m.v1 m.blocks s k

theorem tpAccept_num (cfg : Cfg) (s : St) (m : TMsg) (n : Nat) :
    (tpAccept cfg s m).num n = s.num n ∨
    ∃ b ∈ m.blocks, b.header.number = n ∧ (tpAccept cfg s m).num n = some b.header.hash ∧
      ∃ t ∈ b.txs, (s.ft t).isSome = true := by
  rw [tpAccept_eq]; exact tpStoreBlk_fold_num cfg m.v1 m.blocks s n

/-- `execute` for transactions proofs, by verdict -/
theorem onTxsProof_cases (cfg : Cfg) (s s' : St) (p : Nat) (m : TMsg) (code : Nat)
    (h : onTxsProof cfg s p m = (s', code)) :
    (code ≠ OK ∧ ∃ s1, (s1 = s ∨ (cfg.markOnReject = true ∧ s1 = markPeerT s p)) ∧
      s' = { s1 with treq := if s1.conn p then upd s1.treq p none else s1.treq }) ∨
    (code = OK ∧ ∃ req s1, s.conn p = true ∧ s.treq p = some req ∧
      s' = { s1 with treq := if s1.conn p then upd s1.treq p none else s1.treq } ∧
      ((req.lastHash ≠ m.lastHash ∧ s1 = { s with ft := markTimeout s.ft req.hashes }) ∨
       (m.blocks = [] ∧ m.lastHash = req.lastHash ∧ s1 = { s with ft := markMissing s.ft m.missing }) ∨
       (m.blocks ≠ [] ∧ AcceptedT req m ∧ s1 = tpAccept cfg s m))) := by
  unfold onTxsProof at h
  simp only [Prod.mk.injEq] at h
  obtain ⟨h1, h2⟩ := h
  rcases tpInner_cases cfg s p m with ⟨hc, hs⟩ | ⟨hc, req, hconn, hreq, hs⟩
  · left
    rw [h2] at hc
    refine ⟨hc, _, ?_, h1.symm⟩
    rw [hs]
    split
    · right; simp_all
    · left; rfl
  · right
    rw [h2] at hc
    refine ⟨hc, req, (tpInner cfg s p m).1, hconn, hreq, ?_, hs⟩
    rw [← h1, h2, hc]; simp [isOk_OK]

/-! ### `SendBlock` -/

theorem addBlock_cases (mb : List MEntry) (b : Blk) :
    addBlock mb b = (mb, none) ∨ addBlock mb b = (mb, some false) ∨
    (∃ e ∈ mb, e.hash = b.hash ∧ e.proved = true ∧
      addBlock mb b =
        (mb.map (fun x => if x.hash = b.hash && x.proved then { x with body := some b } else x), some true)) := by
  unfold addBlock
  split
  · left; rfl
  · next e he =>
    split
    · next hp =>
      right; right
      refine ⟨e, List.mem_of_find?_eq_some he, ?_, hp, rfl⟩
      simpa using List.find?_some he
    · right; left; rfl

theorem mem_insertByNum (b x : Blk) (l : List Blk) : x ∈ insertByNum b l ↔ x = b ∨ x ∈ l := by
  induction l with
  | nil => simp [insertByNum]
  | cons a l ih =>
    unfold insertByNum
    split
    · simp
    · simp only [List.mem_cons, ih]
      constructor
      · rintro (h | h | h) <;> simp [h]
      · rintro (h | h | h) <;> simp [h]

theorem mem_sortByNum (x : Blk) (l : List Blk) : x ∈ sortByNum l ↔ x ∈ l := by
  unfold sortByNum
  induction l with
  | nil => simp
  | cons a l ih => simp only [List.foldr_cons, mem_insertByNum, ih, List.mem_cons]

theorem onBlock_cases (cfg : Cfg) (s s' : St) (b : Blk) (record : Option (List Nat))
    (next : Option (List (Nat × Bool))) (o : BlkOut)
    (h : onBlock cfg s b record next = .ok (s', o)) :
    (cfg.checkBody = true ∧ b.bodyOk = false ∧ s' = s ∧ o = ⟨none, [], true⟩) ∨
    ((cfg.checkBody = true → b.bodyOk = true) ∧
      ((s' = { s with mb := (addBlock s.mb b).1 } ∧ o = ⟨(addBlock s.mb b).2, [], false⟩) ∨
       (∃ mb2, (∀ e ∈ mb2, e.body = none) ∧
          s' = { (sortByNum ((addBlock s.mb b).1.filterMap (·.body))).foldl filterBlock s with mb := mb2 } ∧
          o = ⟨(addBlock s.mb b).2,
               (sortByNum ((addBlock s.mb b).1.filterMap (·.body))).map (·.hash), false⟩))) := by
  unfold onBlock at h
  split at h
  · next hc =>
    left
    simp only [Bool.and_eq_true, Bool.not_eq_true'] at hc
    simp only [Except.ok.injEq, Prod.mk.injEq] at h
    exact ⟨hc.1, hc.2, h.1.symm, h.2.symm⟩
  · next hc =>
    right
    refine ⟨?_, ?_⟩
    · intro h1; simpa [h1] using hc
    · simp only at h
      split at h
      · split at h
        · exact absurd h (by simp)
        · next rec =>
          split at h
          · exact absurd h (by simp)
          · split at h
            · exact absurd h (by simp)
            · right
              simp only [Except.ok.injEq, Prod.mk.injEq] at h
              refine ⟨_, ?_, h.1.symm, h.2.symm⟩
              intro e he
              split at he
              · simp only [List.mem_map] at he
                obtain ⟨_, _, rfl⟩ := he; rfl
              · simp at he
      · left
        simp only [Except.ok.injEq, Prod.mk.injEq] at h
        exact ⟨h.1.symm, h.2.symm⟩

theorem indexTxs_cases (f : Nat → Option (Nat × Nat)) (n i : Nat) (txs : List (Nat × Bool)) (t : Nat) :
    indexTxs f n i txs t = f t ∨ ∃ j, indexTxs f n i txs t = some (n, j) ∧ (t, true) ∈ txs := by
  induction txs generalizing f i with
  | nil => left; rfl
  | cons a l ih =>
    obtain ⟨t0, touch⟩ := a
    unfold indexTxs
    rcases ih (if touch = true then upd f t0 (some (n, i)) else f) (i + 1) with h | ⟨j, h, hm⟩
    · rw [h]
      by_cases ht : touch = true
      · simp only [ht, ↓reduceIte, upd_apply]
        by_cases htt : t = t0
        · right; exact ⟨i, by simp [htt], by simp [htt]⟩
        · left; simp [htt]
      · left; simp [ht]
    · right; exact ⟨j, h, List.mem_cons_of_mem _ hm⟩

theorem filterBlock_frame (s : St) (b : Blk) :
    (filterBlock s b).conn = s.conn ∧ (filterBlock s b).breq = s.breq ∧ (filterBlock s b).treq = s.treq ∧
    (filterBlock s b).fh = s.fh ∧ (filterBlock s b).ft = s.ft ∧ (filterBlock s b).mb = s.mb := by
  unfold filterBlock; simp only; split <;> simp

theorem filterBlock_txr (s : St) (b : Blk) (t : Nat) :
    (filterBlock s b).txr t = s.txr t ∨
    ∃ j, (filterBlock s b).txr t = some (b.number, j) ∧ (t, true) ∈ b.txs := by
  have h := indexTxs_cases s.txr b.number 0 b.txs t
  unfold filterBlock; simp only; split <;> exact h

theorem filterBlock_fold_frame (l : List Blk) (s : St) :
    (l.foldl filterBlock s).conn = s.conn ∧ (l.foldl filterBlock s).breq = s.breq ∧
    (l.foldl filterBlock s).treq = s.treq ∧ (l.foldl filterBlock s).fh = s.fh ∧
    (l.foldl filterBlock s).ft = s.ft ∧ (l.foldl filterBlock s).mb = s.mb := by
  induction l generalizing s with
  | nil => simp
  | cons a l ih =>
    simp only [List.foldl_cons]
    have h1 := ih (filterBlock s a)
    have h2 := filterBlock_frame s a
    exact ⟨h1.1.trans h2.1, h1.2.1.trans h2.2.1, h1.2.2.1.trans h2.2.2.1, h1.2.2.2.1.trans h2.2.2.2.1,
      h1.2.2.2.2.1.trans h2.2.2.2.2.1, h1.2.2.2.2.2.trans h2.2.2.2.2.2⟩

theorem filterBlock_fold_txr (l : List Blk) (s : St) (t : Nat) :
    (l.foldl filterBlock s).txr t = s.txr t ∨
    ∃ x ∈ l, ∃ j, (l.foldl filterBlock s).txr t = some (x.number, j) ∧ (t, true) ∈ x.txs := by
  induction l generalizing s with
  | nil => simp
  | cons a l ih =>
    simp only [List.foldl_cons]
    rcases ih (filterBlock s a) with h | ⟨x, hx, h⟩
    · rw [h]
      rcases filterBlock_txr s a t with h1 | h1
      · exact Or.inl h1
      · exact Or.inr ⟨a, List.mem_cons_self, h1⟩
    · exact Or.inr ⟨x, List.mem_cons_of_mem _ hx, h⟩

/-- a body held after `add_block` is the block of the message (accepted) or was held before -/
theorem addBlock_body (mb : List MEntry) (b : Blk) (x : Blk)
    (hx : x ∈ (addBlock mb b).1.filterMap (·.body)) :
    (x = b ∧ (addBlock mb b).2 = some true) ∨ ∃ e ∈ mb, e.body = some x := by
  rw [List.mem_filterMap] at hx
  obtain ⟨e', he', hb⟩ := hx
  rcases addBlock_cases mb b with h | h | ⟨e, _, _, _, h⟩
  · rw [h] at he'; exact Or.inr ⟨e', he', hb⟩
  · rw [h] at he'; exact Or.inr ⟨e', he', hb⟩
  · rw [h] at he' ⊢
    simp only [List.mem_map] at he'
    obtain ⟨e0, he0, rfl⟩ := he'
    split at hb
    · simp only [Option.some.injEq] at hb; exact Or.inl ⟨hb.symm, rfl⟩
    · exact Or.inr ⟨e0, he0, hb⟩

/-! ### events that leave the store and the matched blocks alone -/

/-- the records of the store and the matched blocks are the same -/
def Keeps (s' s : St) : Prop := s'.hdr = s.hdr ∧ s'.num = s.num ∧ s'.txr = s.txr ∧ s'.mb = s.mb

theorem Keeps.refl (s : St) : Keeps s s := ⟨rfl, rfl, rfl, rfl⟩
theorem Keeps.trans {a b c : St} (h1 : Keeps a b) (h2 : Keeps b c) : Keeps a c :=
  ⟨h1.1.trans h2.1, h1.2.1.trans h2.2.1, h1.2.2.1.trans h2.2.2.1, h1.2.2.2.trans h2.2.2.2⟩

theorem markPeerH_keeps (s : St) (p : Nat) : Keeps (markPeerH s p) s :=
  have h := markPeerH_frame s p
  ⟨h.2.2.2.2.2.1, h.2.2.2.2.2.2.1, h.2.2.2.2.2.2.2.1, h.2.2.2.2.1⟩

theorem markPeerT_keeps (s : St) (p : Nat) : Keeps (markPeerT s p) s :=
  have h := markPeerT_frame s p
  ⟨h.2.2.2.2.2.1, h.2.2.2.2.2.2.1, h.2.2.2.2.2.2.2.1, h.2.2.2.2.1⟩

theorem connect_keeps (s : St) (p : Nat) : Keeps (connect s p) s := ⟨rfl, rfl, rfl, rfl⟩

theorem disconnect_keeps (s : St) (p : Nat) : Keeps (disconnect s p) s := by
  have h := (markPeerT_keeps (markPeerH s p) p).trans (markPeerH_keeps s p)
  exact h

theorem rpcFetchHeader_keeps (s : St) (h now : Nat) : Keeps (rpcFetchHeader s h now).1 s := by
  unfold rpcFetchHeader; split <;> exact ⟨rfl, rfl, rfl, rfl⟩

theorem rpcFetchTx_keeps (s s' : St) (t now : Nat) (pending : Bool) (r : FStatus × TxAns)
    (h : rpcFetchTx s t now pending = .ok (s', r)) : Keeps s' s := by
  unfold rpcFetchTx at h
  split at h
  · exact absurd h (by simp)
  · simp only [Except.ok.injEq, Prod.mk.injEq] at h; rw [← h.1]; exact ⟨rfl, rfl, rfl, rfl⟩
  · simp only [Except.ok.injEq, Prod.mk.injEq] at h; rw [← h.1]; exact ⟨rfl, rfl, rfl, rfl⟩

theorem sendH_keeps (now tip : Nat) (best : List Nat) (cs : List (List Nat)) (s : St) :
    Keeps (sendH now tip best s cs).1 s := by
  induction cs generalizing s with
  | nil => exact Keeps.refl s
  | cons c cs ih =>
    unfold sendH
    split
    · exact Keeps.refl s
    · next p _ => exact (ih _).trans ⟨rfl, rfl, rfl, rfl⟩

theorem sendT_keeps (now tip : Nat) (best : List Nat) (cs : List (List Nat)) (s : St) :
    Keeps (sendT now tip best s cs).1 s := by
  induction cs generalizing s with
  | nil => exact Keeps.refl s
  | cons c cs ih =>
    unfold sendT
    split
    · exact Keeps.refl s
    · next p _ => exact (ih _).trans ⟨rfl, rfl, rfl, rfl⟩

theorem fetchTick_keeps (cfg : Cfg) (s : St) (now tip : Nat) (best candsH candsT : List Nat) :
    Keeps (fetchTick cfg s now tip best candsH candsT).1 s := by
  unfold fetchTick
  exact (sendT_keeps _ _ _ _ _).trans (sendH_keeps _ _ _ _ _)

theorem markPeers_fold_keeps (l : List Nat) (s : St) :
    Keeps (l.foldl (fun s p => markPeerT (markPeerH s p) p) s) s := by
  induction l generalizing s with
  | nil => exact Keeps.refl s
  | cons a l ih =>
    simp only [List.foldl_cons]
    exact (ih _).trans ((markPeerT_keeps _ a).trans (markPeerH_keeps s a))

theorem refreshTick_keeps (cfg : Cfg) (s : St) (now : Nat) (cands stateTO : List Nat) :
    Keeps (refreshTick cfg s now cands stateTO).1 s := by
  unfold refreshTick; exact markPeers_fold_keeps _ s

theorem onTxsProof_mb (cfg : Cfg) (s s' : St) (p : Nat) (m : TMsg) (code : Nat)
    (h : onTxsProof cfg s p m = (s', code)) : s'.mb = s.mb := by
  rcases onTxsProof_cases cfg s s' p m code h with
    ⟨_, s1, hs1, rfl⟩ | ⟨hc, req, s1, hconn, hreq, rfl, hcase⟩
  · rcases hs1 with rfl | ⟨_, rfl⟩
    · rfl
    · exact (markPeerT_frame s p).2.2.2.2.1
  · rcases hcase with ⟨_, rfl⟩ | ⟨_, _, rfl⟩ | ⟨_, hacc, rfl⟩
    · rfl
    · rfl
    · exact (tpAccept_frame cfg s m).2.2.2

theorem onBlocksProof_mb (cfg : Cfg) (s s' : St) (p : Nat) (m : BMsg) (code : Nat)
    (h : onBlocksProof cfg s p m = (s', code)) :
    s'.mb = s.mb ∨ s'.mb = markProved s.mb (m.headers.map (·.hash)) := by
  rcases onBlocksProof_cases cfg s s' p m code h with
    ⟨_, s1, hs1, rfl⟩ | ⟨hc, req, s1, hconn, hreq, rfl, hcase⟩
  · rcases hs1 with rfl | ⟨_, rfl⟩
    · exact Or.inl rfl
    · exact Or.inl (markPeerH_frame s p).2.2.2.2.1
  · rcases hcase with ⟨_, rfl⟩ | ⟨_, _, rfl⟩ | ⟨_, hacc, rfl⟩
    · exact Or.inl rfl
    · exact Or.inl rfl
    · rcases (bpAccept_frame cfg s req m).2.2.2.2.2 with h1 | ⟨_, h1⟩
      · exact Or.inl h1
      · exact Or.inr h1

/-- every event other than the three message handlers and the two environment events on the
matched blocks keeps the store and the matched blocks -/
theorem step_keeps (cfg : Cfg) (s s' : St) (e : Ev) (o : Out) (h : step cfg s e = .ok (s', o))
    (h1 : ∀ p m, e ≠ .blocksProof p m) (h2 : ∀ p m, e ≠ .txsProof p m)
    (h3 : ∀ b r n, e ≠ .block b r n) (h4 : e ≠ .reorg) (h5 : ∀ l, e ≠ .envMatched l) :
    Keeps s' s := by
  cases e with
  | connect p => simp only [step, Except.ok.injEq, Prod.mk.injEq] at h; rw [← h.1]; exact connect_keeps s p
  | disconnect p =>
    simp only [step, Except.ok.injEq, Prod.mk.injEq] at h; rw [← h.1]; exact disconnect_keeps s p
  | fetchHeader k now =>
    simp only [step, Except.ok.injEq, Prod.mk.injEq] at h; rw [← h.1]; exact rpcFetchHeader_keeps s k now
  | fetchTx t now pending =>
    simp only [step] at h
    split at h
    · next r hr =>
      simp only [Except.ok.injEq, Prod.mk.injEq] at h; rw [← h.1]
      exact rpcFetchTx_keeps s r.1 t now pending r.2 hr
    · exact absurd h (by simp)
  | getTx t pending =>
    simp only [step] at h
    split at h
    · simp only [Except.ok.injEq, Prod.mk.injEq] at h; rw [← h.1]; exact Keeps.refl s
    · exact absurd h (by simp)
  | getHeader k inProved =>
    simp only [step, Except.ok.injEq, Prod.mk.injEq] at h; rw [← h.1]; exact Keeps.refl s
  | fetchTick now tip best candsH candsT =>
    simp only [step, Except.ok.injEq, Prod.mk.injEq] at h; rw [← h.1]; exact fetchTick_keeps _ _ _ _ _ _ _
  | refreshTick now cands stateTO =>
    simp only [step, Except.ok.injEq, Prod.mk.injEq] at h; rw [← h.1]; exact refreshTick_keeps _ _ _ _ _
  | blocksProof p m => exact absurd rfl (h1 p m)
  | txsProof p m => exact absurd rfl (h2 p m)
  | block b r n => exact absurd rfl (h3 b r n)
  | reorg => exact absurd rfl h4
  | envMatched l => exact absurd rfl (h5 l)
  | envProveReq p tip now hashes =>
    simp only [step] at h
    split at h <;>
    · simp only [Except.ok.injEq, Prod.mk.injEq] at h; rw [← h.1]; exact ⟨rfl, rfl, rfl, rfl⟩

/-! ### kept bodies -/

/-- kept bodies belong to proved entries of their own hash; with `checkBody` the header commits
to them -/
def BodyOkL (cfg : Cfg) (mb : List MEntry) : Prop :=
  ∀ e ∈ mb, ∀ x, e.body = some x →
    e.proved = true ∧ x.hash = e.hash ∧ (cfg.checkBody = true → x.bodyOk = true)

theorem markProved_bodyOkL (cfg : Cfg) (mb : List MEntry) (hs : List Nat) (hi : BodyOkL cfg mb) :
    BodyOkL cfg (markProved mb hs) := by
  intro e' he' x hx
  obtain ⟨e, he, hh, hb, _, hp⟩ := markProved_mem mb hs e' he'
  have := hi e he x (hb ▸ hx)
  exact ⟨hp this.1, hh ▸ this.2.1, this.2.2⟩

theorem addBlock_bodyOkL (cfg : Cfg) (mb : List MEntry) (b : Blk) (hi : BodyOkL cfg mb)
    (hb : cfg.checkBody = true → b.bodyOk = true) : BodyOkL cfg (addBlock mb b).1 := by
  rcases addBlock_cases mb b with h | h | ⟨_, _, _, _, h⟩
  · rw [h]; exact hi
  · rw [h]; exact hi
  · rw [h]
    intro e' he' x hx
    simp only [List.mem_map] at he'
    obtain ⟨e, he, rfl⟩ := he'
    split at hx
    · next hc =>
      simp only [Bool.and_eq_true, decide_eq_true_eq] at hc
      simp only [Option.some.injEq] at hx
      subst hx
      simp only [hc.1, hc.2, ↓reduceIte, Bool.and_self, decide_true]
      exact ⟨trivial, trivial, hb⟩
    · next hc =>
      simp only [hc]
      exact hi e he x hx

theorem onBlock_bodyOkL (cfg : Cfg) (s s' : St) (b : Blk) (record : Option (List Nat))
    (next : Option (List (Nat × Bool))) (o : BlkOut)
    (h : onBlock cfg s b record next = .ok (s', o)) (hi : BodyOkL cfg s.mb) : BodyOkL cfg s'.mb := by
  rcases onBlock_cases cfg s s' b record next o h with
    ⟨_, _, rfl, _⟩ | ⟨hb, ⟨rfl, _⟩ | ⟨mb2, hmb2, rfl, _⟩⟩
  · exact hi
  · exact addBlock_bodyOkL cfg s.mb b hi hb
  · intro e he x hx
    rw [hmb2 e he] at hx; exact absurd hx (by simp)

theorem step_bodyOkL (cfg : Cfg) (s s' : St) (e : Ev) (o : Out) (h : step cfg s e = .ok (s', o))
    (hi : BodyOkL cfg s.mb) : BodyOkL cfg s'.mb := by
  by_cases hk : (∀ p m, e ≠ .blocksProof p m) ∧ (∀ p m, e ≠ .txsProof p m) ∧
      (∀ b r n, e ≠ .block b r n) ∧ e ≠ .reorg ∧ (∀ l, e ≠ .envMatched l)
  · rw [(step_keeps cfg s s' e o h hk.1 hk.2.1 hk.2.2.1 hk.2.2.2.1 hk.2.2.2.2).2.2.2]; exact hi
  · cases e with
    | blocksProof p m =>
      simp only [step, Except.ok.injEq, Prod.mk.injEq] at h
      rcases onBlocksProof_mb cfg s s' p m (onBlocksProof cfg s p m).2 (by rw [← h.1]) with h1 | h1
      · rw [h1]; exact hi
      · rw [h1]; exact markProved_bodyOkL cfg _ _ hi
    | txsProof p m =>
      simp only [step, Except.ok.injEq, Prod.mk.injEq] at h
      rw [onTxsProof_mb cfg s s' p m (onTxsProof cfg s p m).2 (by rw [← h.1])]; exact hi
    | block b r n =>
      simp only [step] at h
      split at h
      · next r hr =>
        simp only [Except.ok.injEq, Prod.mk.injEq] at h; rw [← h.1]
        exact onBlock_bodyOkL cfg s r.1 b _ _ r.2 hr hi
      · exact absurd h (by simp)
    | reorg =>
      simp only [step, Except.ok.injEq, Prod.mk.injEq] at h; rw [← h.1]
      intro e he; simp at he
    | envMatched l =>
      simp only [step, Except.ok.injEq, Prod.mk.injEq] at h; rw [← h.1]
      intro e he x hx
      simp only [List.mem_append, List.mem_filter, List.mem_map] at he
      rcases he with ⟨he, _⟩ | ⟨a, _, rfl⟩
      · exact hi e he x hx
      · simp at hx
    | _ => exact absurd ⟨by intros; simp, by intros; simp, by intros; simp, by simp, by intros; simp⟩ hk

theorem run_bodyOkL (cfg : Cfg) (evs : List Ev) (s s' : St) (os : List Out)
    (h : run cfg s evs = .ok (s', os)) (hi : BodyOkL cfg s.mb) : BodyOkL cfg s'.mb := by
  induction evs generalizing s s' os with
  | nil => simp only [run, Except.ok.injEq, Prod.mk.injEq] at h; rw [← h.1]; exact hi
  | cons e es ih =>
    simp only [run] at h
    split at h
    · exact absurd h (by simp)
    · next s1 o hs =>
      split at h
      · exact absurd h (by simp)
      · next s2 os2 hr =>
        simp only [Except.ok.injEq, Prod.mk.injEq] at h
        rw [← h.1]
        exact ih s1 s2 os2 hr (step_bodyOkL cfg s s1 e o hs hi)

end Proofs

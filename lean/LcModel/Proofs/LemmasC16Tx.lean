import LcModel.Proofs.LemmasC16
/-! helper lemmas for C16 (Tx part) -/
namespace Proofs

/-! ### the parts of `TxInv` -/

/-- parts (1) and (2) of `TxInv`: the three maps of the store -/
def tx_SI (w : World) (s : St) : Prop :=
  (∀ t n i, s.txr t = some (n, i) →
    s.num n = some (w.blockAt n) ∧ (s.hdr (w.blockAt n)).isSome = true ∧ w.commits (w.blockAt n) t = true) ∧
  (∀ n bh, s.num n = some bh → bh = w.blockAt n)

/-- a body that may be handed to `filter_block` -/
def tx_Good (w : World) (x : Blk) : Prop :=
  x.hash = w.blockAt x.number ∧ ∀ t ∈ x.txs, w.commits x.hash t.1 = true

/-- part (3) of `TxInv` -/
def tx_BI (w : World) (mb : List MEntry) : Prop :=
  ∀ e ∈ mb, ∀ x, e.body = some x → tx_Good w x

theorem tx_inv_iff (w : World) (s : St) : TxInv w s ↔ tx_SI w s ∧ tx_BI w s.mb := by
  unfold TxInv tx_SI tx_BI tx_Good
  constructor
  · rintro ⟨a, b, c⟩; exact ⟨⟨a, b⟩, c⟩
  · rintro ⟨⟨a, b⟩, c⟩; exact ⟨a, b, c⟩

/-- the fields `TxInv` reads -/
def tx_core (s : St) := (s.hdr, s.num, s.txr, s.mb)

theorem tx_inv_of_core (w : World) (s s' : St) (hc : tx_core s' = tx_core s) (hi : TxInv w s) :
    TxInv w s' := by
  simp only [tx_core, Prod.mk.injEq] at hc
  obtain ⟨h1, h2, h3, h4⟩ := hc
  unfold TxInv at *
  rw [h1, h2, h3, h4]; exact hi

theorem tx_SI_of_eq (w : World) (s s' : St) (h1 : s'.hdr = s.hdr) (h2 : s'.num = s.num)
    (h3 : s'.txr = s.txr) (hi : tx_SI w s) : tx_SI w s' := by
  unfold tx_SI at *
  rw [h1, h2, h3]; exact hi

/-! ### events that do not touch the store -/

theorem tx_core_markPeerH (s : St) (p : Nat) : tx_core (markPeerH s p) = tx_core s := by
  unfold markPeerH; split <;> rfl

theorem tx_core_markPeerT (s : St) (p : Nat) : tx_core (markPeerT s p) = tx_core s := by
  unfold markPeerT; split <;> rfl

theorem tx_core_sendH (now tip : Nat) (best : List Nat) :
    ∀ (cs : List (List Nat)) (s : St), tx_core (sendH now tip best s cs).1 = tx_core s := by
  intro cs
  induction cs with
  | nil => intro s; rfl
  | cons c cs ih =>
    intro s
    simp only [sendH]
    split
    · rfl
    · simp only []
      rw [ih]; rfl

theorem tx_core_sendT (now tip : Nat) (best : List Nat) :
    ∀ (cs : List (List Nat)) (s : St), tx_core (sendT now tip best s cs).1 = tx_core s := by
  intro cs
  induction cs with
  | nil => intro s; rfl
  | cons c cs ih =>
    intro s
    simp only [sendT]
    split
    · rfl
    · simp only []
      rw [ih]; rfl

theorem tx_core_fetchTick (cfg : Cfg) (s : St) (now tip : Nat) (best candsH candsT : List Nat) :
    tx_core (fetchTick cfg s now tip best candsH candsT).1 = tx_core s := by
  unfold fetchTick
  simp only []
  rw [tx_core_sendT, tx_core_sendH]

theorem tx_core_refreshFold :
    ∀ (l : List Nat) (s : St), tx_core (l.foldl (fun s p => markPeerT (markPeerH s p) p) s) = tx_core s := by
  intro l
  induction l with
  | nil => intro s; rfl
  | cons p l ih =>
    intro s
    simp only [List.foldl_cons]
    rw [ih, tx_core_markPeerT, tx_core_markPeerH]

theorem tx_core_refreshTick (cfg : Cfg) (s : St) (now : Nat) (cands stateTO : List Nat) :
    tx_core (refreshTick cfg s now cands stateTO).1 = tx_core s := by
  unfold refreshTick
  simp only []
  rw [tx_core_refreshFold]

theorem tx_core_disconnect (s : St) (p : Nat) : tx_core (disconnect s p) = tx_core s := by
  unfold disconnect
  simp only []
  show tx_core (markPeerT (markPeerH s p) p) = tx_core s
  rw [tx_core_markPeerT, tx_core_markPeerH]

theorem tx_core_connect (s : St) (p : Nat) : tx_core (connect s p) = tx_core s := rfl

theorem tx_core_rpcFetchHeader (s : St) (h now : Nat) :
    tx_core (rpcFetchHeader s h now).1 = tx_core s := by
  unfold rpcFetchHeader
  split <;> rfl

theorem tx_core_rpcFetchTx (s : St) (t now : Nat) (pending : Bool) (r : St × FStatus × TxAns)
    (h : rpcFetchTx s t now pending = .ok r) : tx_core r.1 = tx_core s := by
  unfold rpcFetchTx at h
  split at h
  · cases h
  · simp only [Except.ok.injEq] at h; subst h; rfl
  · simp only [Except.ok.injEq] at h; subst h; rfl

/-! ### the store -/

/-- the shape of every write to the store: the header and number records of one block of the
chain, and transaction records that point to that block -/
theorem tx_SI_upd (w : World) (s s' : St) (k hh : Nat) (x : Hdr)
    (ht : ∀ t n i, s'.txr t = some (n, i) → s.txr t = some (n, i) ∨ (n = k ∧ w.commits hh t = true))
    (hn : s'.num = upd s.num k (some hh)) (hd : s'.hdr = upd s.hdr hh (some x))
    (hk : hh = w.blockAt k) (hi : tx_SI w s) : tx_SI w s' := by
  obtain ⟨h1, h2⟩ := hi
  unfold tx_SI
  rw [hn, hd]
  constructor
  · intro t n i hr
    rcases ht t n i hr with ho | ⟨hnk, hc⟩
    · obtain ⟨a, b, c⟩ := h1 t n i ho
      refine ⟨?_, ?_, c⟩
      · unfold upd; split
        · subst_vars; rfl
        · exact a
      · unfold upd; split
        · rfl
        · exact b
    · subst hnk
      subst hk
      refine ⟨?_, ?_, hc⟩
      · simp [upd]
      · simp [upd]
  · intro n bh hn'
    unfold upd at hn'
    split at hn'
    · simp only [Option.some.injEq] at hn'
      subst_vars; rfl
    · exact h2 n bh hn'

theorem tx_storeHdr_SI (w : World) (cfg : Cfg) (s : St) (h : Hdr)
    (hh : h.hash = w.blockAt h.number) (hi : tx_SI w s) : tx_SI w (storeHdr cfg s h) := by
  unfold storeHdr
  exact tx_SI_upd w s _ h.number h.hash _ (fun t n i hr => Or.inl hr) rfl rfl hh hi

theorem tx_storeHdr_mb (cfg : Cfg) (s : St) (h : Hdr) : (storeHdr cfg s h).mb = s.mb := rfl

theorem tx_addFetchedTx_cases (cfg : Cfg) (s : St) (t : Nat) (h : Hdr) :
    addFetchedTx cfg s t h = storeHdr cfg s h ∨
    addFetchedTx cfg s t h =
      { storeHdr cfg s h with txr := upd (storeHdr cfg s h).txr t (some (h.number, NO_INDEX)) } := by
  unfold addFetchedTx
  simp only []
  split
  · split
    · exact Or.inl rfl
    · exact Or.inr rfl
  · exact Or.inr (by simp)

theorem tx_addFetchedTx_SI (w : World) (cfg : Cfg) (s : St) (t : Nat) (h : Hdr)
    (hh : h.hash = w.blockAt h.number) (hc : w.commits h.hash t = true) (hi : tx_SI w s) :
    tx_SI w (addFetchedTx cfg s t h) := by
  rcases tx_addFetchedTx_cases cfg s t h with he | he <;> rw [he]
  · exact tx_storeHdr_SI w cfg s h hh hi
  · unfold storeHdr
    refine tx_SI_upd w s _ h.number h.hash _ ?_ rfl rfl hh hi
    intro t' n i hr
    simp only [] at hr
    unfold upd at hr
    split at hr
    · simp only [Option.some.injEq, Prod.mk.injEq] at hr
      subst_vars
      exact Or.inr ⟨hr.1.symm, hc⟩
    · exact Or.inl hr

theorem tx_addFetchedTx_mb (cfg : Cfg) (s : St) (t : Nat) (h : Hdr) :
    (addFetchedTx cfg s t h).mb = s.mb := by
  rcases tx_addFetchedTx_cases cfg s t h with he | he <;> rw [he] <;> rfl

theorem tx_indexTxs (n : Nat) : ∀ (l : List (Nat × Bool)) (f : Nat → Option (Nat × Nat)) (i t : Nat),
    indexTxs f n i l t = f t ∨ ∃ j, indexTxs f n i l t = some (n, j) ∧ (t, true) ∈ l := by
  intro l
  induction l with
  | nil => intro f i t; exact Or.inl rfl
  | cons a rest ih =>
    intro f i t
    obtain ⟨t0, touch⟩ := a
    cases touch with
    | false =>
      simp only [indexTxs, Bool.false_eq_true, if_false]
      rcases ih f (i + 1) t with h | ⟨j, hj, hm⟩
      · exact Or.inl h
      · exact Or.inr ⟨j, hj, List.mem_cons_of_mem _ hm⟩
    | true =>
      simp only [indexTxs, if_true]
      rcases ih (upd f t0 (some (n, i))) (i + 1) t with h | ⟨j, hj, hm⟩
      · by_cases htt : t = t0
        · subst htt
          refine Or.inr ⟨i, ?_, List.mem_cons_self⟩
          rw [h]; simp [upd]
        · left; rw [h]; simp [upd, htt]
      · exact Or.inr ⟨j, hj, List.mem_cons_of_mem _ hm⟩

theorem tx_filterBlock_SI (w : World) (s : St) (b : Blk) (hb : tx_Good w b) (hi : tx_SI w s) :
    tx_SI w (filterBlock s b) := by
  obtain ⟨hh, hc⟩ := hb
  unfold filterBlock
  simp only []
  split
  · refine tx_SI_upd w s _ b.number b.hash _ ?_ rfl rfl hh hi
    intro t n i hr
    simp only [] at hr
    rcases tx_indexTxs b.number b.txs s.txr 0 t with h | ⟨j, hj, hm⟩
    · rw [h] at hr; exact Or.inl hr
    · rw [hj] at hr
      simp only [Option.some.injEq, Prod.mk.injEq] at hr
      exact Or.inr ⟨hr.1.symm, hc _ hm⟩
  · rename_i hany
    refine tx_SI_of_eq w s _ rfl rfl ?_ hi
    funext t
    simp only []
    rcases tx_indexTxs b.number b.txs s.txr 0 t with h | ⟨j, hj, hm⟩
    · exact h
    · exfalso
      apply hany
      rw [List.any_eq_true]
      exact ⟨_, hm, rfl⟩

theorem tx_filterBlock_mb (s : St) (b : Blk) : (filterBlock s b).mb = s.mb := by
  unfold filterBlock
  simp only []
  split <;> rfl

/-- a fold of steps that keep an invariant -/
theorem tx_foldl_inv {α : Type} (P : St → Prop) (Q : α → Prop) (f : St → α → St)
    (hf : ∀ s a, P s → Q a → P (f s a)) :
    ∀ (l : List α) (s : St), P s → (∀ a ∈ l, Q a) → P (l.foldl f s) := by
  intro l
  induction l with
  | nil => intro s hs _; exact hs
  | cons a l ih =>
    intro s hs hq
    simp only [List.foldl_cons]
    exact ih _ (hf s a hs (hq a List.mem_cons_self)) (fun x hx => hq x (List.mem_cons_of_mem _ hx))

/-! ### `SendBlocksProof` -/

theorem tx_bpStore_inv (w : World) (cfg : Cfg) (v1 : Bool) (s : St) (h : Hdr)
    (hi : TxInv w s) (hh : h.hash = w.blockAt h.number) : TxInv w (bpStore cfg v1 s h) := by
  unfold bpStore
  split
  · rw [tx_inv_iff] at hi ⊢
    exact ⟨tx_storeHdr_SI w cfg _ _ hh hi.1, hi.2⟩
  · exact hi

theorem tx_markProved_BI (w : World) (mb : List MEntry) (hs : List Nat) (hi : tx_BI w mb) :
    tx_BI w (markProved mb hs) := by
  intro e he x hx
  unfold markProved at he
  rw [List.mem_map] at he
  obtain ⟨e0, he0, rfl⟩ := he
  split at hx
  · exact hi e0 he0 x hx
  · exact hi e0 he0 x hx

theorem tx_bpFinal_inv (w : World) (cfg : Cfg) (s1 : St) (m : BMsg)
    (ht : ∀ hd ∈ m.headers, hd.hash = w.blockAt hd.number) (hi : TxInv w s1) :
    TxInv w { (m.headers.foldl (bpStore cfg m.v1) s1) with
      fh := markMissing (m.headers.foldl (bpStore cfg m.v1) s1).fh m.missing } := by
  refine tx_inv_of_core w (List.foldl (bpStore cfg m.v1) s1 m.headers) _ rfl ?_
  exact tx_foldl_inv (TxInv w) (fun hd => hd.hash = w.blockAt hd.number) (bpStore cfg m.v1)
    (fun s a hs ha => tx_bpStore_inv w cfg m.v1 s a hs ha) m.headers _ hi ht

theorem tx_bpInner_inv (w : World) (cfg : Cfg) (s : St) (p : Nat) (m : BMsg)
    (hi : TxInv w s) (ht : ∀ hd ∈ m.headers, hd.hash = w.blockAt hd.number) :
    TxInv w (bpInner cfg s p m).1 := by
  unfold bpInner
  repeat' split
  all_goals first
    | exact hi
    | (refine tx_bpFinal_inv w cfg _ m ht ?_
       first
         | exact hi
         | (rw [tx_inv_iff] at hi ⊢
            exact ⟨hi.1, tx_markProved_BI w _ _ hi.2⟩))

theorem tx_onBlocksProof_inv (w : World) (cfg : Cfg) (s : St) (p : Nat) (m : BMsg)
    (hi : TxInv w s) (ht : ∀ hd ∈ m.headers, hd.hash = w.blockAt hd.number) :
    TxInv w (onBlocksProof cfg s p m).1 := by
  unfold onBlocksProof
  simp only []
  have h1 := tx_bpInner_inv w cfg s p m hi ht
  split
  · exact tx_inv_of_core w (markPeerH (bpInner cfg s p m).1 p) _ rfl
      (tx_inv_of_core w _ _ (tx_core_markPeerH _ _) h1)
  · exact tx_inv_of_core w (bpInner cfg s p m).1 _ rfl h1

/-! ### `SendTransactionsProof` -/

theorem tx_tpStoreTx_inv (w : World) (cfg : Cfg) (h : Hdr) (s : St) (t : Nat)
    (hh : h.hash = w.blockAt h.number) (hi : TxInv w s) (hc : w.commits h.hash t = true) :
    TxInv w (tpStoreTx cfg h s t) := by
  unfold tpStoreTx
  split
  · rw [tx_inv_iff] at hi ⊢
    refine ⟨tx_addFetchedTx_SI w cfg _ t h hh hc hi.1, ?_⟩
    rw [tx_addFetchedTx_mb]; exact hi.2
  · exact hi

theorem tx_tpStoreBlk_inv (w : World) (cfg : Cfg) (v1 : Bool) (s : St) (b : FBlk)
    (hi : TxInv w s)
    (hb : b.header.hash = w.blockAt b.header.number ∧ ∀ t ∈ b.txs, w.commits b.header.hash t = true) :
    TxInv w (tpStoreBlk cfg v1 s b) := by
  unfold tpStoreBlk
  exact tx_foldl_inv (TxInv w) (fun t => w.commits b.header.hash t = true)
    (tpStoreTx cfg { b.header with ext := if v1 then b.header.ext else none })
    (fun s a hs ha => tx_tpStoreTx_inv w cfg { b.header with ext := if v1 then b.header.ext else none }
      s a hb.1 hs ha) b.txs s hi hb.2

theorem tx_tpInner_inv (w : World) (cfg : Cfg) (s : St) (p : Nat) (m : TMsg)
    (hi : TxInv w s)
    (ht : ∀ b ∈ m.blocks, b.header.hash = w.blockAt b.header.number ∧
      (b.merkleOk = true → ∀ t ∈ b.txs, w.commits b.header.hash t = true)) :
    TxInv w (tpInner cfg s p m).1 := by
  unfold tpInner
  repeat' split
  all_goals first
    | exact hi
    | skip
  rename_i hall
  simp only []
  refine tx_inv_of_core w (List.foldl (tpStoreBlk cfg m.v1) s m.blocks) _ rfl ?_
  refine tx_foldl_inv (TxInv w)
    (fun b => b.header.hash = w.blockAt b.header.number ∧ ∀ t ∈ b.txs, w.commits b.header.hash t = true)
    (tpStoreBlk cfg m.v1) (fun s a hs ha => tx_tpStoreBlk_inv w cfg m.v1 s a hs ha) m.blocks s hi ?_
  intro b hb
  have hm : b.merkleOk = true := by
    simp only [Bool.not_eq_true', Bool.not_eq_false] at hall
    exact (List.all_eq_true.mp hall) b hb
  exact ⟨(ht b hb).1, (ht b hb).2 hm⟩

theorem tx_onTxsProof_inv (w : World) (cfg : Cfg) (s : St) (p : Nat) (m : TMsg)
    (hi : TxInv w s)
    (ht : ∀ b ∈ m.blocks, b.header.hash = w.blockAt b.header.number ∧
      (b.merkleOk = true → ∀ t ∈ b.txs, w.commits b.header.hash t = true)) :
    TxInv w (onTxsProof cfg s p m).1 := by
  unfold onTxsProof
  simp only []
  have h1 := tx_tpInner_inv w cfg s p m hi ht
  split
  · exact tx_inv_of_core w (markPeerT (tpInner cfg s p m).1 p) _ rfl
      (tx_inv_of_core w _ _ (tx_core_markPeerT _ _) h1)
  · exact tx_inv_of_core w (tpInner cfg s p m).1 _ rfl h1

/-! ### `SendBlock` -/

theorem tx_addBlock_BI (w : World) (mb : List MEntry) (b : Blk) (hb : tx_Good w b)
    (hi : tx_BI w mb) : tx_BI w (addBlock mb b).1 := by
  unfold addBlock
  split
  · exact hi
  · split
    · intro e he x hx
      simp only [List.mem_map] at he
      obtain ⟨e0, he0, rfl⟩ := he
      split at hx
      · simp only [Option.some.injEq] at hx
        subst hx; exact hb
      · exact hi e0 he0 x hx
    · exact hi

theorem tx_mem_insertByNum (b x : Blk) : ∀ l : List Blk, x ∈ insertByNum b l → x = b ∨ x ∈ l := by
  intro l
  induction l with
  | nil => intro h; simp only [insertByNum, List.mem_singleton] at h; exact Or.inl h
  | cons y ys ih =>
    intro h
    simp only [insertByNum] at h
    split at h
    · rw [List.mem_cons] at h; exact h
    · rw [List.mem_cons] at h
      rcases h with h | h
      · exact Or.inr (h ▸ List.mem_cons_self)
      · rcases ih h with h | h
        · exact Or.inl h
        · exact Or.inr (List.mem_cons_of_mem _ h)

theorem tx_mem_sortByNum (x : Blk) : ∀ l : List Blk, x ∈ sortByNum l → x ∈ l := by
  intro l
  induction l with
  | nil => intro h; exact h
  | cons y ys ih =>
    intro h
    unfold sortByNum at h
    simp only [List.foldr_cons] at h
    rcases tx_mem_insertByNum y x _ h with h | h
    · exact h ▸ List.mem_cons_self
    · exact List.mem_cons_of_mem _ (ih h)

theorem tx_filterFold_SI (w : World) :
    ∀ (l : List Blk) (s : St), tx_SI w s → (∀ x ∈ l, tx_Good w x) →
      tx_SI w (l.foldl filterBlock s) :=
  tx_foldl_inv (tx_SI w) (tx_Good w) filterBlock (fun s a hs ha => tx_filterBlock_SI w s a ha hs)

theorem tx_onBlock_inv (w : World) (cfg : Cfg) (s : St) (b : Blk) (record : Option (List Nat))
    (next : Option (List (Nat × Bool))) (r : St × BlkOut)
    (h : onBlock cfg s b record next = .ok r) (hi : TxInv w s)
    (ht : b.hash = w.blockAt b.number ∧
      (b.bodyOk = true → ∀ t ∈ b.txs, w.commits b.hash t.1 = true) ∧
      (cfg.checkBody = true ∨ b.bodyOk = true)) : TxInv w r.1 := by
  unfold onBlock at h
  split at h
  · simp only [Except.ok.injEq] at h; subst h; exact hi
  · rename_i hcb
    have hok : b.bodyOk = true := by
      rcases ht.2.2 with hc | hc
      · cases hbo : b.bodyOk with
        | true => rfl
        | false => simp [hc, hbo] at hcb
      · exact hc
    have hgood : tx_Good w b := ⟨ht.1, ht.2.1 hok⟩
    rw [tx_inv_iff] at hi
    have hbi := tx_addBlock_BI w s.mb b hgood hi.2
    simp only [] at h
    split at h
    · split at h
      · cases h
      · split at h
        · cases h
        · split at h
          · cases h
          · simp only [Except.ok.injEq] at h
            subst h
            rw [tx_inv_iff]
            constructor
            · refine tx_SI_of_eq w (List.foldl filterBlock s
                (sortByNum (List.filterMap (fun x => x.body) (addBlock s.mb b).1))) _ rfl rfl rfl ?_
              refine tx_filterFold_SI w _ s hi.1 ?_
              intro x hx
              have hx' := tx_mem_sortByNum x _ hx
              rw [List.mem_filterMap] at hx'
              obtain ⟨e, he, hex⟩ := hx'
              exact hbi e he x hex
            · intro e he x hx
              simp only [] at he
              split at he
              · rw [List.mem_map] at he
                obtain ⟨e0, _, rfl⟩ := he
                cases hx
              · cases he
    · simp only [Except.ok.injEq] at h
      subst h
      rw [tx_inv_iff]
      exact ⟨hi.1, hbi⟩

/-! ### one step, a history -/

theorem tx_step_inv (w : World) (cfg : Cfg) (s s' : St) (e : Ev) (o : Out)
    (h : step cfg s e = .ok (s', o)) (hi : TxInv w s) (ht : EvTruth w cfg e) : TxInv w s' := by
  cases e with
  | connect p =>
    simp only [step, Except.ok.injEq, Prod.mk.injEq] at h
    rw [← h.1]; exact tx_inv_of_core w _ _ (tx_core_connect s p) hi
  | disconnect p =>
    simp only [step, Except.ok.injEq, Prod.mk.injEq] at h
    rw [← h.1]; exact tx_inv_of_core w _ _ (tx_core_disconnect s p) hi
  | fetchHeader hh now =>
    simp only [step, Except.ok.injEq, Prod.mk.injEq] at h
    rw [← h.1]; exact tx_inv_of_core w _ _ (tx_core_rpcFetchHeader s hh now) hi
  | fetchTx t now pending =>
    simp only [step] at h
    split at h
    · rename_i r hr
      simp only [Except.ok.injEq, Prod.mk.injEq] at h
      rw [← h.1]; exact tx_inv_of_core w _ _ (tx_core_rpcFetchTx s t now pending r hr) hi
    · cases h
  | getTx t pending =>
    simp only [step] at h
    split at h
    · simp only [Except.ok.injEq, Prod.mk.injEq] at h
      rw [← h.1]; exact hi
    · cases h
  | getHeader hh inProved =>
    simp only [step, Except.ok.injEq, Prod.mk.injEq] at h
    rw [← h.1]; exact hi
  | fetchTick now tip best candsH candsT =>
    simp only [step, Except.ok.injEq, Prod.mk.injEq] at h
    rw [← h.1]; exact tx_inv_of_core w _ _ (tx_core_fetchTick cfg s now tip best candsH candsT) hi
  | refreshTick now cands stateTO =>
    simp only [step, Except.ok.injEq, Prod.mk.injEq] at h
    rw [← h.1]; exact tx_inv_of_core w _ _ (tx_core_refreshTick cfg s now cands stateTO) hi
  | blocksProof p m =>
    simp only [step, Except.ok.injEq, Prod.mk.injEq] at h
    rw [← h.1]; exact tx_onBlocksProof_inv w cfg s p m hi ht
  | txsProof p m =>
    simp only [step, Except.ok.injEq, Prod.mk.injEq] at h
    rw [← h.1]; exact tx_onTxsProof_inv w cfg s p m hi ht
  | block b record next =>
    simp only [step] at h
    split at h
    · rename_i r hr
      simp only [Except.ok.injEq, Prod.mk.injEq] at h
      rw [← h.1]; exact tx_onBlock_inv w cfg s b record next r hr hi ht
    · cases h
  | reorg =>
    simp only [step, Except.ok.injEq, Prod.mk.injEq] at h
    rw [← h.1]
    rw [tx_inv_iff] at hi ⊢
    refine ⟨hi.1, ?_⟩
    intro e he
    cases he
  | envMatched l =>
    simp only [step, Except.ok.injEq, Prod.mk.injEq] at h
    rw [← h.1]
    rw [tx_inv_iff] at hi ⊢
    refine ⟨hi.1, ?_⟩
    intro e he x hx
    simp only [List.mem_append, List.mem_filter, List.mem_map] at he
    rcases he with ⟨he, _⟩ | ⟨e0, _, rfl⟩
    · exact hi.2 e he x hx
    · cases hx
  | envProveReq p tip now hashes =>
    simp only [step] at h
    split at h
    · simp only [Except.ok.injEq, Prod.mk.injEq] at h
      rw [← h.1]; exact tx_inv_of_core w s _ rfl hi
    · simp only [Except.ok.injEq, Prod.mk.injEq] at h
      rw [← h.1]; exact hi

theorem tx_run_inv (w : World) (cfg : Cfg) :
    ∀ (evs : List Ev) (s s' : St) (os : List Out), TxInv w s → (∀ e ∈ evs, EvTruth w cfg e) →
      run cfg s evs = .ok (s', os) → TxInv w s' := by
  intro evs
  induction evs with
  | nil =>
    intro s s' os hi _ h
    simp only [run, Except.ok.injEq, Prod.mk.injEq] at h
    rw [← h.1]; exact hi
  | cons e es ih =>
    intro s s' os hi ht h
    simp only [run] at h
    split at h
    · cases h
    · rename_i s1 o hs
      split at h
      · cases h
      · rename_i s2 os2 hr
        simp only [Except.ok.injEq, Prod.mk.injEq] at h
        rw [← h.1]
        exact ih s1 s2 os2 (tx_step_inv w cfg s s1 e o hs hi (ht e List.mem_cons_self))
          (fun e' he' => ht e' (List.mem_cons_of_mem _ he')) hr

/-! ### the answers -/

theorem tx_getTx_answer (w : World) (s : St) (hi : TxInv w s) (t : Nat) (pending : Bool) :
    ∃ a, rpcGetTx s t pending = .ok a ∧
      ∀ b, a = .committed b → (s.hdr b).isSome = true ∧ w.commits b t = true := by
  unfold rpcGetTx getTxWithHeader
  cases htx : s.txr t with
  | none =>
    refine ⟨if pending then .pending else .unknown, rfl, ?_⟩
    intro b hb
    split at hb <;> cases hb
  | some ni =>
    obtain ⟨n, i⟩ := ni
    obtain ⟨h1, h2, h3⟩ := hi.1 t n i htx
    obtain ⟨x, hx⟩ := Option.isSome_iff_exists.mp h2
    refine ⟨.committed (w.blockAt n), ?_, ?_⟩
    · simp only [h1, hx]
    · intro b hb
      cases hb
      exact ⟨h2, h3⟩

end Proofs

import LcModel.Proofs.Lemmas
/-! definitions and helper lemmas for C16 (fetch bookkeeping along histories) -/
namespace Proofs

/-- a property of (state, event) that holds at every step of a history -/
def Along (cfg : Cfg) (P : St → Ev → Prop) : St → List Ev → Prop
  | _, [] => True
  | s, e :: es =>
    P s e ∧ (match step cfg s e with
      | .ok (s1, _) => Along cfg P s1 es
      | .error _ => True)

/-- a fetch is accounted for: the next FETCH timer can send it (never sent, or timed out), or it
was reported missing (the next RPC call re-adds it), or a connected peer holds a request for it
(whose time-out / disconnect marks it) -/
def ServedH (s : St) : Prop :=
  ∀ k fi, s.fh k = some fi →
    fi.firstSent = 0 ∨ fi.timeout = true ∨ fi.missing = true ∨ ∃ p r, slotB s p = some r ∧ k ∈ r.hashes
def ServedT (s : St) : Prop :=
  ∀ k fi, s.ft k = some fi →
    fi.firstSent = 0 ∨ fi.timeout = true ∨ fi.missing = true ∨ ∃ p r, slotT s p = some r ∧ k ∈ r.hashes
def Served (s : St) : Prop := ServedH s ∧ ServedT s

/-- the network layer never reuses a session id: `connected` is not called for a peer that is
in the table -/
def FreshConnect (s : St) (e : Ev) : Prop := ∀ p, e = .connect p → s.conn p = false

/-- no answer to an outstanding request is rejected -/
def NoReject (cfg : Cfg) (s : St) : Ev → Prop
  | .blocksProof p m => slotB s p ≠ none → (onBlocksProof cfg s p m).2 = OK
  | .txsProof p m => slotT s p ≠ none → (onTxsProof cfg s p m).2 = OK
  | _ => True

/-- `process_last_state` fails with a 4xx code or succeeds, it never answers `RequireRecheck` -/
def LsCodeWf : Ev → Prop
  | .blocksProof _ m => m.lsCode ≠ 201
  | .txsProof _ m => m.lsCode ≠ 201
  | _ => True

/-- ground truth for the (transaction, block) answers: which block commits to which
transaction, and THE block of each height -/
structure World where
  commits : Nat → Nat → Bool
  blockAt : Nat → Nat

/-- the events carry only blocks of the one chain, and the verdicts are truthful -/
def EvTruth (w : World) (cfg : Cfg) : Ev → Prop
  | .blocksProof _ m => ∀ hd ∈ m.headers, hd.hash = w.blockAt hd.number
  | .txsProof _ m => ∀ b ∈ m.blocks, b.header.hash = w.blockAt b.header.number ∧
      (b.merkleOk = true → ∀ t ∈ b.txs, w.commits b.header.hash t = true)
  | .block b _ _ => b.hash = w.blockAt b.number ∧
      (b.bodyOk = true → ∀ t ∈ b.txs, w.commits b.hash t.1 = true) ∧
      (cfg.checkBody = true ∨ b.bodyOk = true)
  | _ => True

/-- every transaction record leads, through the number record, to a stored header that commits
to the transaction -/
def TxInv (w : World) (s : St) : Prop :=
  (∀ t n i, s.txr t = some (n, i) →
    s.num n = some (w.blockAt n) ∧ (s.hdr (w.blockAt n)).isSome = true ∧ w.commits (w.blockAt n) t = true) ∧
  (∀ n bh, s.num n = some bh → bh = w.blockAt n) ∧
  (∀ e ∈ s.mb, ∀ x, e.body = some x →
    x.hash = w.blockAt x.number ∧ ∀ t ∈ x.txs, w.commits x.hash t.1 = true)

end Proofs

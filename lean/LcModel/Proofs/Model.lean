import LcModel.Prelude
/-!
# Proofs layer — block / transaction proofs, block bodies and the fetch bookkeeping

Model of
* `SendBlocksProofProcess::execute` and `SendTransactionsProofProcess::execute`
  (`src/protocols/light_client/components/send_{blocks,transactions}_proof.rs`): request
  matching (`check_block_hashes` / `check_tx_hashes`), the "other last state, empty message"
  branch, what is stored (`add_fetched_header`, `add_fetched_tx`), which matched blocks are
  marked proved, and the request slot that is cleared whatever the verdict;
* `SyncProtocol::received(SendBlock)` (`src/protocols/synchronizer.rs`): `Peers::add_block` and
  the completion of a matched-blocks batch (`filter_block` of every downloaded body);
* the fetch bookkeeping of `Peers` (`FetchInfo`, `add_fetch_*`, `get_*_to_fetch`,
  `fetching_idle_*`, `mark_fetching_*_timeout`, `mark_fetching_*_missing`, `remove_fetching_*`),
  `LightClientProtocol::fetch_headers_txs` (the FETCH timer), the time-out part of
  `refresh_all_peers`, `Peers::remove_peer`;
* the RPCs `fetch_header`, `get_header`, `fetch_transaction`, `get_transaction`
  (`src/service.rs`) with `Storage::get_transaction_with_header`.

Hashes (blocks, transactions), peers and extensions are natural-number ids.  The verdicts of
the checks that look inside the bytes are INPUTS carried by the messages: proof of work, the V1
extra fields (`verify_extra_hash`), `verify_mmr_proof(last header, proof, headers)`, the
transaction Merkle proof of each filtered block, `process_last_state` for another last state,
and - for a block body - whether the header commits to it (`bodyOk`).

Maps keyed by ids are functions (`Nat → Option _`); what the code enumerates (hash maps) enters
the events as candidate lists (`cands`), filtered by the model.  Only `get_transaction` and the
completion branch of `SendBlock` can abort in Rust (`expect` / `assert!`): they live in `M`.
-/
namespace Proofs

/-! ### constants -/

def OK : Nat := 200
def MALFORMED : Nat := 400
def PEER_NOT_FOUND : Nat := 411
def NOT_ON_PROCESS : Nat := 421
def UNEXPECTED_RESPONSE : Nat := 422
def INVALID_NONCE : Nat := 432
def INVALID_PROOF : Nat := 439
/-- `u32::MAX`: the position stored with a fetched transaction -/
def NO_INDEX : Nat := 4294967295

/-- `Status::is_ok` -/
def isOk (code : Nat) : Bool := code == 200 || code == 201

/-- constants of the code and the switches of the three repairs proposed with this layer
(`false` = the pinned code) -/
structure Cfg where
  blocksLimit : Nat       -- GET_BLOCKS_PROOF_LIMIT
  txsLimit : Nat          -- GET_TRANSACTIONS_PROOF_LIMIT
  timeout : Nat           -- MESSAGE_TIMEOUT
  /-- a rejected proof marks the fetches of the request as timed out before the slot is cleared -/
  markOnReject : Bool
  /-- `SendBlock`: the body is checked against the header -/
  checkBody : Bool
  /-- a header stored again without extension keeps the stored extension -/
  keepExt : Bool
  deriving Repr, DecidableEq

def pinned : Cfg := ⟨1000, 1000, 60000, false, false, false⟩
def repaired : Cfg := ⟨1000, 1000, 60000, true, true, true⟩

/-! ### state -/

/-- `FetchInfo` -/
structure FetchInfo where
  addedTs : Nat
  firstSent : Nat
  timeout : Bool
  missing : Bool
  deriving Repr, DecidableEq

/-- `BlocksProofRequest` -/
structure BReq where
  lastHash : Nat
  hashes : List Nat
  getBlocks : Bool        -- should_get_blocks: the request proves matched blocks
  whenSent : Nat
  deriving Repr, DecidableEq

/-- `TransactionsProofRequest` -/
structure TReq where
  lastHash : Nat
  hashes : List Nat
  whenSent : Nat
  deriving Repr, DecidableEq

/-- a header as stored (`HeaderWithExtension`) or carried by a message -/
structure Hdr where
  hash : Nat
  number : Nat
  ext : Option Nat
  deriving Repr, DecidableEq

/-- a `SendBlock`: the transactions with the verdict "touches a registered script" (those are
the ones `filter_block` stores), and whether the header commits to the body -/
structure Blk where
  hash : Nat
  number : Nat
  ext : Option Nat
  txs : List (Nat × Bool)
  bodyOk : Bool
  deriving Repr, DecidableEq

/-- an entry of `Peers.matched_blocks` -/
structure MEntry where
  hash : Nat
  proved : Bool
  body : Option Blk
  deriving Repr, DecidableEq

structure St where
  conn : Nat → Bool                      -- `Peers.inner` has the peer
  breq : Nat → Option BReq               -- `Peer.blocks_proof_request`
  treq : Nat → Option TReq               -- `Peer.txs_proof_request`
  fh : Nat → Option FetchInfo            -- `Peers.fetching_headers`
  ft : Nat → Option FetchInfo            -- `Peers.fetching_txs`
  mb : List MEntry                       -- `Peers.matched_blocks`
  hdr : Nat → Option Hdr                 -- `Key::BlockHash`
  num : Nat → Option Nat                 -- `Key::BlockNumber` ↦ block hash
  txr : Nat → Option (Nat × Nat)         -- `Key::TxHash` ↦ (block NUMBER, position)

def St.empty : St :=
  ⟨fun _ => false, fun _ => none, fun _ => none, fun _ => none, fun _ => none, [],
   fun _ => none, fun _ => none, fun _ => none⟩

def upd {α} (f : Nat → Option α) (k : Nat) (v : Option α) : Nat → Option α :=
  fun x => if x = k then v else f x

/-- the request slots as `Peers::get_peer(..).get_*_request()` sees them -/
def slotB (s : St) (p : Nat) : Option BReq := if s.conn p then s.breq p else none
def slotT (s : St) (p : Nat) : Option TReq := if s.conn p then s.treq p else none

/-! ### fetch bookkeeping -/

def newAdd (ts : Nat) : FetchInfo := ⟨ts, 0, false, false⟩

/-- `mark_fetching_*_missing` / the loops of `mark_fetching_*_timeout` -/
def markMissing (f : Nat → Option FetchInfo) (hs : List Nat) : Nat → Option FetchInfo :=
  fun k => if hs.contains k then (f k).map (fun fi => { fi with missing := true }) else f k
def markTimeout (f : Nat → Option FetchInfo) (hs : List Nat) : Nat → Option FetchInfo :=
  fun k => if hs.contains k then (f k).map (fun fi => { fi with timeout := true }) else f k
/-- `fetching_idle_*` -/
def idle (f : Nat → Option FetchInfo) (hs : List Nat) (now : Nat) : Nat → Option FetchInfo :=
  fun k => if hs.contains k then
      (f k).map (fun fi => { fi with firstSent := if fi.firstSent = 0 then now else fi.firstSent, timeout := false })
    else f k

/-- `mark_fetching_headers_timeout(peer)` / `mark_fetching_txs_timeout(peer)` -/
def markPeerH (s : St) (p : Nat) : St :=
  match slotB s p with
  | some r => { s with fh := markTimeout s.fh r.hashes }
  | none => s
def markPeerT (s : St) (p : Nat) : St :=
  match slotT s p with
  | some r => { s with ft := markTimeout s.ft r.hashes }
  | none => s

/-- the predicate of `get_headers_to_fetch` / `get_txs_to_fetch` -/
def sendable (f : Nat → Option FetchInfo) (k : Nat) : Bool :=
  match f k with
  | some fi => fi.firstSent == 0 || fi.timeout
  | none => false

def toFetch (f : Nat → Option FetchInfo) (cands : List Nat) : List Nat :=
  cands.eraseDups.filter (sendable f)

/-- `slice::chunks` (fuel = length) -/
def chunkF (n : Nat) : Nat → List Nat → List (List Nat)
  | 0, _ => []
  | fuel + 1, l => if l.isEmpty then [] else l.take (max n 1) :: chunkF n fuel (l.drop (max n 1))
def chunk (n : Nat) (l : List Nat) : List (List Nat) := chunkF n l.length l

/-! ### the store -/

/-- the two puts `Key::BlockHash`, `Key::BlockNumber` shared by `add_fetched_header`,
`add_fetched_tx` and `filter_block` -/
def storeHdr (cfg : Cfg) (s : St) (h : Hdr) : St :=
  let ext := if cfg.keepExt then
      (match h.ext, s.hdr h.hash with
       | none, some old => old.ext
       | e, _ => e)
    else h.ext
  { s with hdr := upd s.hdr h.hash (some { h with ext := ext }), num := upd s.num h.number (some h.hash) }

/-- `Storage::add_fetched_tx`: an indexed transaction keeps its record (9e4b8e9) -/
def addFetchedTx (cfg : Cfg) (s : St) (t : Nat) (h : Hdr) : St :=
  let s1 := storeHdr cfg s h
  let indexed := match s.txr t with
    | some (_, i) => i != NO_INDEX
    | none => false
  if indexed then s1 else { s1 with txr := upd s1.txr t (some (h.number, NO_INDEX)) }

def indexTxs (f : Nat → Option (Nat × Nat)) (number : Nat) : Nat → List (Nat × Bool) → Nat → Option (Nat × Nat)
  | _, [] => f
  | i, (t, touch) :: rest =>
    indexTxs (if touch then upd f t (some (number, i)) else f) number (i + 1) rest

/-- `Storage::filter_block` as far as the three maps are concerned -/
def filterBlock (s : St) (b : Blk) : St :=
  let s1 := { s with txr := indexTxs s.txr b.number 0 b.txs }
  if b.txs.any (·.2) then
    -- filter_block writes the block's own extension
    { s1 with hdr := upd s1.hdr b.hash (some ⟨b.hash, b.number, b.ext⟩), num := upd s1.num b.number (some b.hash) }
  else s1

/-- `Storage::get_transaction_with_header`: the block is looked up BY NUMBER -/
def getTxWithHeader (s : St) (t : Nat) : M (Option Nat) :=
  match s.txr t with
  | none => .ok none
  | some (n, _) =>
    match s.num n with
    | none => .error (.expect 401)
    | some bh =>
      match s.hdr bh with
      | none => .error (.expect 402)
      | some _ => .ok (some bh)

/-! ### `SendBlocksProof` -/

structure BMsg where
  lastHash : Nat
  proofEmpty : Bool
  headers : List Hdr          -- `ext`: the extension of the V1 table
  missing : List Nat
  v1 : Bool                   -- count_extra_fields() >= 2
  lsCode : Nat                -- `process_last_state(peer, last_header)` (200 = Ok)
  powOk : Bool                -- check_pow_for_headers
  v1Wf : Bool                 -- the V1 table decodes
  extraOk : Bool              -- verify_extra_hash
  mmrOk : Bool                -- verify_mmr_proof(last_header, proof, headers)
  deriving Repr, DecidableEq

/-- `check_block_hashes` / `check_tx_hashes` -/
def checkHashes (req recv miss : List Nat) : Bool :=
  req.length == recv.length + miss.length && req.all (fun h => recv.contains h || miss.contains h)

def markProved (mb : List MEntry) (hs : List Nat) : List MEntry :=
  mb.map (fun e => if hs.contains e.hash then { e with proved := true } else e)

/-- one round of the storing loop: `remove_fetching_header` then `add_fetched_header` -/
def bpStore (cfg : Cfg) (v1 : Bool) (s : St) (h : Hdr) : St :=
  if (s.fh h.hash).isSome then
    storeHdr cfg { s with fh := upd s.fh h.hash none } { h with ext := if v1 then h.ext else none }
  else s

/-- `execute_internally` -/
def bpInner (cfg : Cfg) (s : St) (p : Nat) (m : BMsg) : St × Nat :=
  if !s.conn p then (s, PEER_NOT_FOUND) else
  match s.breq p with
  | none => (s, NOT_ON_PROCESS)
  | some req =>
    if req.lastHash ≠ m.lastHash then
      if m.proofEmpty && m.headers.isEmpty && m.missing.isEmpty then
        if m.lsCode ≠ OK then (s, m.lsCode)
        else ({ s with fh := markTimeout s.fh req.hashes }, OK)
      else (s, UNEXPECTED_RESPONSE)
    else if !checkHashes req.hashes (m.headers.map (·.hash)) m.missing then (s, UNEXPECTED_RESPONSE)
    else if m.headers.isEmpty then
      if !m.proofEmpty then (s, UNEXPECTED_RESPONSE)
      else ({ s with fh := markMissing s.fh m.missing }, OK)
    else if !m.powOk then (s, INVALID_NONCE)
    else if m.v1 && !m.v1Wf then (s, MALFORMED)
    else if m.v1 && !m.extraOk then (s, INVALID_PROOF)
    else if !m.mmrOk then (s, INVALID_PROOF)
    else
      let s1 := if req.getBlocks then { s with mb := markProved s.mb (m.headers.map (·.hash)) } else s
      let s2 := m.headers.foldl (bpStore cfg m.v1) s1
      ({ s2 with fh := markMissing s2.fh m.missing }, OK)

/-- `execute`: the slot is cleared whatever the verdict -/
def onBlocksProof (cfg : Cfg) (s : St) (p : Nat) (m : BMsg) : St × Nat :=
  let r := bpInner cfg s p m
  let s1 := if cfg.markOnReject && !isOk r.2 then markPeerH r.1 p else r.1
  ({ s1 with breq := if s1.conn p then upd s1.breq p none else s1.breq }, r.2)

/-! ### `SendTransactionsProof` -/

/-- a `FilteredBlock` -/
structure FBlk where
  header : Hdr
  txs : List Nat
  merkleOk : Bool             -- the Merkle proof leads to the header's transactions root
  deriving Repr, DecidableEq

structure TMsg where
  lastHash : Nat
  proofEmpty : Bool
  blocks : List FBlk
  missing : List Nat
  v1 : Bool
  lsCode : Nat
  powOk : Bool
  v1Wf : Bool
  extraOk : Bool
  mmrOk : Bool
  deriving Repr, DecidableEq

/-- `remove_fetching_transaction` then `add_fetched_tx` -/
def tpStoreTx (cfg : Cfg) (h : Hdr) (s : St) (t : Nat) : St :=
  if (s.ft t).isSome then
    addFetchedTx cfg { s with ft := upd s.ft t none, fh := upd s.fh h.hash none } t h
  else s

def tpStoreBlk (cfg : Cfg) (v1 : Bool) (s : St) (b : FBlk) : St :=
  b.txs.foldl (tpStoreTx cfg { b.header with ext := if v1 then b.header.ext else none }) s

def tpInner (cfg : Cfg) (s : St) (p : Nat) (m : TMsg) : St × Nat :=
  if !s.conn p then (s, PEER_NOT_FOUND) else
  match s.treq p with
  | none => (s, NOT_ON_PROCESS)
  | some req =>
    if req.lastHash ≠ m.lastHash then
      if m.proofEmpty && m.blocks.isEmpty && m.missing.isEmpty then
        if m.lsCode ≠ OK then (s, m.lsCode)
        else ({ s with ft := markTimeout s.ft req.hashes }, OK)
      else (s, UNEXPECTED_RESPONSE)
    else if !checkHashes req.hashes (m.blocks.flatMap (·.txs)) m.missing then (s, UNEXPECTED_RESPONSE)
    else if m.blocks.isEmpty then
      if !m.proofEmpty then (s, UNEXPECTED_RESPONSE)
      else ({ s with ft := markMissing s.ft m.missing }, OK)
    else if !m.powOk then (s, INVALID_NONCE)
    else if m.v1 && !m.v1Wf then (s, MALFORMED)
    else if m.v1 && !m.extraOk then (s, INVALID_PROOF)
    else if !m.mmrOk then (s, INVALID_PROOF)
    else if !m.blocks.all (·.merkleOk) then (s, INVALID_PROOF)
    else
      let s2 := m.blocks.foldl (tpStoreBlk cfg m.v1) s
      ({ s2 with ft := markMissing s2.ft m.missing }, OK)

def onTxsProof (cfg : Cfg) (s : St) (p : Nat) (m : TMsg) : St × Nat :=
  let r := tpInner cfg s p m
  let s1 := if cfg.markOnReject && !isOk r.2 then markPeerT r.1 p else r.1
  ({ s1 with treq := if s1.conn p then upd s1.treq p none else s1.treq }, r.2)

/-! ### `SendBlock` -/

/-- what `SendBlock` did: `Peers::add_block`'s answer (`none`: not a matched block, `some
proved`), the blocks handed to `filter_block`, and whether the sender is banned (repaired
variant only) -/
structure BlkOut where
  accepted : Option Bool
  indexed : List Nat
  banned : Bool
  deriving Repr, DecidableEq

/-- `Peers::add_block` on the map of matched blocks -/
def addBlock (mb : List MEntry) (b : Blk) : List MEntry × Option Bool :=
  match mb.find? (·.hash = b.hash) with
  | none => (mb, none)
  | some e =>
    if e.proved then
      (mb.map (fun x => if x.hash = b.hash && x.proved then { x with body := some b } else x), some true)
    else (mb, some false)

def insertByNum (b : Blk) : List Blk → List Blk
  | [] => [b]
  | x :: xs => if b.number ≤ x.number then b :: x :: xs else x :: insertByNum b xs
def sortByNum (l : List Blk) : List Blk := l.foldr insertByNum []

/-- `record`: the hashes of the earliest matched-blocks record of the store; `next`: the record
after it (hash, proved) -/
def onBlock (cfg : Cfg) (s : St) (b : Blk) (record : Option (List Nat))
    (next : Option (List (Nat × Bool))) : M (St × BlkOut) :=
  if cfg.checkBody && !b.bodyOk then .ok (s, ⟨none, [], true⟩) else
  let r := addBlock s.mb b
  if !r.1.isEmpty && r.1.all (·.body.isSome) then
    match record with
    | none => .error (.expect 410)
    | some rec =>
      let blocks := sortByNum (r.1.filterMap (·.body))
      if blocks.length ≠ rec.eraseDups.length then .error (.expect 411)
      else if !blocks.all (fun x => rec.contains x.hash) then .error (.expect 412)
      else
        let s1 := blocks.foldl filterBlock s
        let mb2 := match next with
          | some l => l.map (fun e => (⟨e.1, e.2, none⟩ : MEntry))
          | none => []
        .ok ({ s1 with mb := mb2 }, ⟨r.2, blocks.map (·.hash), false⟩)
  else .ok ({ s with mb := r.1 }, ⟨r.2, [], false⟩)

/-! ### RPCs -/

inductive FStatus where
  | added (ts : Nat)
  | fetching (firstSent : Nat)
  | fetched
  | notFound
  deriving Repr, DecidableEq

/-- the reading part shared by `fetch_header` and `fetch_transaction` -/
def fetchRead (f : Nat → Option FetchInfo) (k now : Nat) : (Nat → Option FetchInfo) × FStatus :=
  match f k with
  | some fi =>
    if fi.missing then (upd f k (some (newAdd now)), .notFound)
    else if fi.firstSent > 0 then (f, .fetching fi.firstSent)
    else (f, .added fi.addedTs)
  | none => (upd f k (some (newAdd now)), .added now)

/-- `ChainRpcImpl::fetch_header` -/
def rpcFetchHeader (s : St) (h now : Nat) : St × FStatus :=
  if (s.hdr h).isSome then (s, .fetched)
  else let r := fetchRead s.fh h now; ({ s with fh := r.1 }, r.2)

/-- `ChainRpcImpl::get_header`: the store, else a header of a proved state (input) -/
def rpcGetHeader (s : St) (h : Nat) (inProved : Bool) : Bool := (s.hdr h).isSome || inProved

inductive TxAns where
  | committed (block : Nat)
  | pending
  | unknown
  deriving Repr, DecidableEq

/-- `TransactionRpcImpl::get_transaction` (`pending`: the pool has it) -/
def rpcGetTx (s : St) (t : Nat) (pending : Bool) : M TxAns :=
  match getTxWithHeader s t with
  | .error e => .error e
  | .ok (some b) => .ok (.committed b)
  | .ok none => .ok (if pending then .pending else .unknown)

/-- `TransactionRpcImpl::fetch_transaction`: the status and, when fetched, `get_transaction`'s
answer -/
def rpcFetchTx (s : St) (t now : Nat) (pending : Bool) : M (St × FStatus × TxAns) :=
  match rpcGetTx s t pending with
  | .error e => .error e
  | .ok .unknown => let r := fetchRead s.ft t now; .ok ({ s with ft := r.1 }, r.2, .unknown)
  | .ok a => .ok (s, .fetched, a)

/-! ### timers, connections -/

def findIdleB (s : St) (best : List Nat) : Option Nat :=
  best.find? (fun p => s.conn p && (s.breq p).isNone)
def findIdleT (s : St) (best : List Nat) : Option Nat :=
  best.find? (fun p => s.conn p && (s.treq p).isNone)

/-- the two loops of `fetch_headers_txs`: a chunk goes to the first best peer with a free slot -/
def sendH (now tip : Nat) (best : List Nat) : St → List (List Nat) → St × List (Nat × List Nat)
  | s, [] => (s, [])
  | s, c :: cs =>
    match findIdleB s best with
    | none => (s, [])
    | some p =>
      let r := sendH now tip best
        { s with breq := upd s.breq p (some ⟨tip, c, false, now⟩), fh := idle s.fh c now } cs
      (r.1, (p, c) :: r.2)
def sendT (now tip : Nat) (best : List Nat) : St → List (List Nat) → St × List (Nat × List Nat)
  | s, [] => (s, [])
  | s, c :: cs =>
    match findIdleT s best with
    | none => (s, [])
    | some p =>
      let r := sendT now tip best
        { s with treq := upd s.treq p (some ⟨tip, c, now⟩), ft := idle s.ft c now } cs
      (r.1, (p, c) :: r.2)

/-- `fetch_headers_txs`; `best`: `get_best_proved_peers(tip)`, `candsH` / `candsT`: the hashes the
timer considers - an enumeration of the keys of the two fetch maps (more is harmless); in the
variant repaired by `fixes/4` the enumeration of the header map leaves out the last state's own
hash (a server refuses a request that lists the last hash among the block hashes) -/
def fetchTick (cfg : Cfg) (s : St) (now tip : Nat) (best candsH candsT : List Nat) :
    St × List (Nat × List Nat) × List (Nat × List Nat) :=
  let r1 := sendH now tip best s (chunk cfg.blocksLimit (toFetch s.fh candsH))
  let r2 := sendT now tip best r1.1 (chunk cfg.txsLimit (toFetch r1.1.ft candsT))
  (r2.1, r1.2, r2.2)

/-- the request-age part of `get_peers_which_have_timeout` -/
def reqTimedOut (cfg : Cfg) (s : St) (now p : Nat) : Bool :=
  (match slotB s p with
   | some r => decide (now > r.whenSent + cfg.timeout)
   | none => false) ||
  (match slotT s p with
   | some r => decide (now > r.whenSent + cfg.timeout)
   | none => false)

/-- the first loop of `refresh_all_peers`: the fetches of every timed-out peer are marked, the
peer is handed to `nc.disconnect` (it stays in the table until `disconnected` is called);
`stateTO`: the peers whose last state / prove request / download request is over age -/
def refreshTick (cfg : Cfg) (s : St) (now : Nat) (cands stateTO : List Nat) : St × List Nat :=
  let out := cands.eraseDups.filter (fun p => s.conn p && (stateTO.contains p || reqTimedOut cfg s now p))
  (out.foldl (fun s p => markPeerT (markPeerH s p) p) s, out)

/-- `Peers::remove_peer` -/
def disconnect (s : St) (p : Nat) : St :=
  let s1 := markPeerT (markPeerH s p) p
  { s1 with conn := fun x => if x = p then false else s1.conn x,
            breq := upd s1.breq p none, treq := upd s1.treq p none }

/-- `Peers::add_peer`: the entry is REPLACED -/
def connect (s : St) (p : Nat) : St :=
  { s with conn := fun x => if x = p then true else s.conn x,
           breq := upd s.breq p none, treq := upd s.treq p none }

/-! ### event histories -/

inductive Ev where
  | connect (p : Nat)
  | disconnect (p : Nat)
  | fetchHeader (h now : Nat)
  | fetchTx (t now : Nat) (pending : Bool)
  | getTx (t : Nat) (pending : Bool)
  | getHeader (h : Nat) (inProved : Bool)
  | fetchTick (now tip : Nat) (best candsH candsT : List Nat)
  | refreshTick (now : Nat) (cands stateTO : List Nat)
  | blocksProof (p : Nat) (m : BMsg)
  | txsProof (p : Nat) (m : TMsg)
  | block (b : Blk) (record : Option (List Nat)) (next : Option (List (Nat × Bool)))
  /-- `commit_prove_state` found a reorganisation: the in-memory matched blocks are dropped; the
  records `BlockHash` / `BlockNumber` / `TxHash` of the store are NOT rolled back -/
  | reorg
  /-- the filter protocol recorded matched blocks (`add_matched_blocks`) -/
  | envMatched (l : List (Nat × Bool))
  /-- `prove_or_download_matched_blocks` asked peer `p` (free slot) to prove matched blocks -/
  | envProveReq (p tip now : Nat) (hashes : List Nat)

inductive Out where
  | none
  | code (c : Nat)
  | status (st : FStatus) (a : TxAns)
  | tx (a : TxAns)
  | header (found : Bool)
  | sent (hs ts : List (Nat × List Nat))
  | gone (ps : List Nat)
  | blk (o : BlkOut)
  deriving Repr, DecidableEq

def step (cfg : Cfg) (s : St) : Ev → M (St × Out)
  | .connect p => .ok (connect s p, .none)
  | .disconnect p => .ok (disconnect s p, .none)
  | .fetchHeader h now => let r := rpcFetchHeader s h now; .ok (r.1, .status r.2 .unknown)
  | .fetchTx t now pending =>
    match rpcFetchTx s t now pending with
    | .ok r => .ok (r.1, .status r.2.1 r.2.2)
    | .error e => .error e
  | .getTx t pending =>
    match rpcGetTx s t pending with
    | .ok a => .ok (s, .tx a)
    | .error e => .error e
  | .getHeader h inProved => .ok (s, .header (rpcGetHeader s h inProved))
  | .fetchTick now tip best candsH candsT =>
    let r := fetchTick cfg s now tip best candsH candsT; .ok (r.1, .sent r.2.1 r.2.2)
  | .refreshTick now cands stateTO => let r := refreshTick cfg s now cands stateTO; .ok (r.1, .gone r.2)
  | .blocksProof p m => let r := onBlocksProof cfg s p m; .ok (r.1, .code r.2)
  | .txsProof p m => let r := onTxsProof cfg s p m; .ok (r.1, .code r.2)
  | .block b record next =>
    match onBlock cfg s b record next with
    | .ok r => .ok (r.1, .blk r.2)
    | .error e => .error e
  | .reorg => .ok ({ s with mb := [] }, .none)
  | .envMatched l =>
    .ok ({ s with mb := s.mb.filter (fun e => !(l.map (·.1)).contains e.hash) ++
                        l.map (fun e => (⟨e.1, e.2, none⟩ : MEntry)) }, .none)
  | .envProveReq p tip now hashes =>
    if s.conn p && (s.breq p).isNone then
      .ok ({ s with breq := upd s.breq p (some ⟨tip, hashes, true, now⟩) }, .none)
    else .ok (s, .none)

def run (cfg : Cfg) : St → List Ev → M (St × List Out)
  | s, [] => .ok (s, [])
  | s, e :: es =>
    match step cfg s e with
    | .error x => .error x
    | .ok (s1, o) =>
      match run cfg s1 es with
      | .error x => .error x
      | .ok (s2, os) => .ok (s2, o :: os)

/-! ### the RPC-visible status of a hash (what `fetch_header` / `fetch_transaction` would answer) -/

inductive Status where
  | absent | added | fetching | fetched | notFound
  deriving Repr, DecidableEq

def statusOf (stored : Bool) (fi : Option FetchInfo) : Status :=
  if stored then .fetched else
  match fi with
  | none => .absent
  | some fi => if fi.missing then .notFound else if fi.firstSent > 0 then .fetching else .added

def hStatus (s : St) (h : Nat) : Status := statusOf (s.hdr h).isSome (s.fh h)
/-- for transactions "stored" is the `TxHash` record (`get_transaction` answers from it) -/
def tStatus (s : St) (t : Nat) : Status := statusOf (s.txr t).isSome (s.ft t)

/-! ### driver -/

structure D where
  cfg : Cfg
  s : St
  hk : List Nat      -- block hashes mentioned
  tk : List Nat      -- transaction hashes mentioned
  pk : List Nat      -- peers mentioned
  nk : List Nat      -- block numbers mentioned

def initD : D := ⟨pinned, St.empty, [], [], [], []⟩

def groups (sep : String) (ts : List String) : List (List String) :=
  ts.foldr (fun t acc => if t = sep then [] :: acc else match acc with
    | g :: gs => (t :: g) :: gs
    | [] => [[t]]) [[]]

def optOf (t : String) : Option (Option Nat) :=
  if t = "-" then some none else t.toNat?.map some

def insertSorted (x : Nat) : List Nat → List Nat
  | [] => [x]
  | y :: ys => if x < y then x :: y :: ys else if x = y then y :: ys else y :: insertSorted x ys
def addKeys (ks : List Nat) (l : List Nat) : List Nat := l.foldl (fun acc x => insertSorted x acc) ks

def showOpt : Option Nat → String
  | none => "-"
  | some x => toString x

def showFi (fi : FetchInfo) : String :=
  s!"{fi.addedTs}:{fi.firstSent}:{showBool (fi.timeout && fi.firstSent != 0)}:{showBool fi.missing}"

def showBlkShort (b : Option Blk) : String :=
  match b with
  | none => "-"
  | some b => s!"{b.number}/{b.txs.length}"

def showReqs (l : List (Nat × List Nat)) : String :=
  " ".intercalate (l.map (fun e => s!"{e.1}:{e.2}"))

/-- the observable state over the mentioned keys (present entries only) -/
def dump (d : D) : String :=
  let s := d.s
  let ps := d.pk.filterMap (fun p => if s.conn p then
      some (s!"{p}:" ++ (match s.breq p with
        | some r => s!"B({r.lastHash},{showBool r.getBlocks},{r.hashes})"
        | none => "B-") ++ (match s.treq p with
        | some r => s!"T({r.lastHash},{r.hashes})"
        | none => "T-")) else none)
  let fh := d.hk.filterMap (fun h => (s.fh h).map (fun fi => s!"{h}:{showFi fi}"))
  let ft := d.tk.filterMap (fun t => (s.ft t).map (fun fi => s!"{t}:{showFi fi}"))
  let mb := (addKeys [] (s.mb.map (·.hash))).filterMap (fun h =>
    (s.mb.find? (·.hash = h)).map (fun e => s!"{h}:{showBool e.proved}:{showBlkShort e.body}"))
  let hd := d.hk.filterMap (fun h => (s.hdr h).map (fun x => s!"{h}:{x.number}:{showOpt x.ext}"))
  let nm := d.nk.filterMap (fun n => (s.num n).map (fun h => s!"{n}:{h}"))
  let tx := d.tk.filterMap (fun t => (s.txr t).map (fun x => s!"{t}:{x.1}:{x.2}"))
  "P " ++ " ".intercalate ps ++ " FH " ++ " ".intercalate fh ++ " FT " ++ " ".intercalate ft ++
    " MB " ++ " ".intercalate mb ++ " HDR " ++ " ".intercalate hd ++ " NUM " ++ " ".intercalate nm ++
    " TXR " ++ " ".intercalate tx

def showStatus : FStatus → String
  | .added ts => s!"added {ts}"
  | .fetching f => s!"fetching {f}"
  | .fetched => "fetched"
  | .notFound => "not_found"

def showTx : TxAns → String
  | .committed b => s!"committed {b}"
  | .pending => "pending"
  | .unknown => "unknown"

def showOut : Out → String
  | .none => "ok"
  | .code c => s!"code {c}"
  | .status st a => s!"{showStatus st} {showTx a}"
  | .tx a => showTx a
  | .header f => s!"header {showBool f}"
  | .sent hs ts => s!"sent H {showReqs hs} T {showReqs ts}"
  | .gone ps => s!"gone {ps}"
  | .blk o => s!"block {showBool (o.accepted == some true)} {o.indexed} {showBool o.banned}"

def parseHdrs : List String → Option (List Hdr)
  | [] => some []
  | h :: n :: e :: rest =>
    (match h.toNat?, n.toNat?, optOf e, parseHdrs rest with
     | some h, some n, some e, some l => some (⟨h, n, e⟩ :: l)
     | _, _, _, _ => none)
  | _ => none

def parsePairsB : List String → Option (List (Nat × Bool))
  | [] => some []
  | a :: b :: rest =>
    (match a.toNat?, b.toNat?, parsePairsB rest with
     | some a, some b, some l => some ((a, b = 1) :: l)
     | _, _, _ => none)
  | _ => none

def parseFBlk : List String → Option FBlk
  | h :: n :: e :: mk :: txs =>
    (match h.toNat?, n.toNat?, optOf e, mk.toNat?, natsOf txs with
     | some h, some n, some e, some mk, some txs => some ⟨⟨h, n, e⟩, txs, mk = 1⟩
     | _, _, _, _, _ => none)
  | _ => none

/-- `-` = none, otherwise numbers -/
def optList (ts : List String) : Option (Option (List Nat)) :=
  if ts = ["-"] then some none else (natsOf ts).map some

def runEv (d : D) (e : Ev) : D × String :=
  match step d.cfg d.s e with
  | .ok (s', o) => let d' := { d with s := s' }; (d', showOut o ++ " || " ++ dump d')
  | .error x => (d, showPanic x)

/-- State lines (answer `ok`):
 `cfg blocksLimit txsLimit timeout markOnReject checkBody keepExt` (also resets)
 `reset`
 `peer p`, `breq p last getBlocks whenSent | hashes…`, `treq p last whenSent | hashes…`
 `fh h added firstSent timeout missing`, `ft t …`
 `mb h proved` / `mb h proved number ext|- bodyOk | tx touch …`
 `hdr h number ext|-`, `num n h`, `txr t number index`
Operations (answer `<result> || <dump>`):
 `connect p`, `disconnect p`, `reorg`
 `fetch-header h now`, `fetch-tx t now pending`, `get-tx t pending`, `get-header h inProved`
 `tick now tip | best… | candsH… | candsT…`
 `refresh now | cands… | stateTO…`
 `bp p last proofEmpty v1 lsCode pow v1wf extra mmr | h n e … | missing…`
 `tp p last proofEmpty v1 lsCode pow v1wf extra mmr | missing… | h n e merkleOk tx… | …`
 `block h n e bodyOk | tx touch … | record…|- | next(h proved)…|- [| p tip now hashes…]` (the optional
   group: the blocks-proof request the filter pipeline issued right after the batch was indexed) -/
def stepLine (d : D) (line : String) : D × String :=
  match groups "|" (tokens line) with
  | ["cfg", a, b, c, e, f, g] :: _ =>
    (match natsOf [a, b, c, e, f, g] with
     | some [a, b, c, e, f, g] => ({ initD with cfg := ⟨a, b, c, e = 1, f = 1, g = 1⟩ }, "ok")
     | _ => (d, "bad-op"))
  | ["reset"] :: _ => ({ initD with cfg := d.cfg }, "ok")
  | ["peer", p] :: _ =>
    (match p.toNat? with
     | some p => ({ d with s := connect d.s p, pk := addKeys d.pk [p] }, "ok")
     | none => (d, "bad-op"))
  | ["breq", p, l, g, w] :: hs :: _ =>
    (match natsOf [p, l, g, w], natsOf hs with
     | some [p, l, g, w], some hs =>
       ({ d with s := { d.s with breq := upd d.s.breq p (some ⟨l, hs, g = 1, w⟩) },
                 pk := addKeys d.pk [p], hk := addKeys d.hk (l :: hs) }, "ok")
     | _, _ => (d, "bad-op"))
  | ["treq", p, l, w] :: hs :: _ =>
    (match natsOf [p, l, w], natsOf hs with
     | some [p, l, w], some hs =>
       ({ d with s := { d.s with treq := upd d.s.treq p (some ⟨l, hs, w⟩) },
                 pk := addKeys d.pk [p], hk := addKeys d.hk [l], tk := addKeys d.tk hs }, "ok")
     | _, _ => (d, "bad-op"))
  | ["fh", h, a, f, t, m] :: _ =>
    (match natsOf [h, a, f, t, m] with
     | some [h, a, f, t, m] =>
       ({ d with s := { d.s with fh := upd d.s.fh h (some ⟨a, f, t = 1, m = 1⟩) }, hk := addKeys d.hk [h] }, "ok")
     | _ => (d, "bad-op"))
  | ["ft", h, a, f, t, m] :: _ =>
    (match natsOf [h, a, f, t, m] with
     | some [h, a, f, t, m] =>
       ({ d with s := { d.s with ft := upd d.s.ft h (some ⟨a, f, t = 1, m = 1⟩) }, tk := addKeys d.tk [h] }, "ok")
     | _ => (d, "bad-op"))
  | ["mb", h, pr] :: _ =>
    (match natsOf [h, pr] with
     | some [h, pr] => ({ d with s := { d.s with mb := d.s.mb ++ [⟨h, pr = 1, none⟩] }, hk := addKeys d.hk [h] }, "ok")
     | _ => (d, "bad-op"))
  | ["mb", h, pr, n, e, bo] :: txs :: _ =>
    (match natsOf [h, pr, n, bo], optOf e, parsePairsB txs with
     | some [h, pr, n, bo], some e, some txs =>
       ({ d with s := { d.s with mb := d.s.mb ++ [⟨h, pr = 1, some ⟨h, n, e, txs, bo = 1⟩⟩] },
                 hk := addKeys d.hk [h], nk := addKeys d.nk [n], tk := addKeys d.tk (txs.map (·.1)) }, "ok")
     | _, _, _ => (d, "bad-op"))
  | ["hdr", h, n, e] :: _ =>
    (match natsOf [h, n], optOf e with
     | some [h, n], some e =>
       ({ d with s := { d.s with hdr := upd d.s.hdr h (some ⟨h, n, e⟩) }, hk := addKeys d.hk [h], nk := addKeys d.nk [n] }, "ok")
     | _, _ => (d, "bad-op"))
  | ["num", n, h] :: _ =>
    (match natsOf [n, h] with
     | some [n, h] => ({ d with s := { d.s with num := upd d.s.num n (some h) }, hk := addKeys d.hk [h], nk := addKeys d.nk [n] }, "ok")
     | _ => (d, "bad-op"))
  | ["txr", t, n, i] :: _ =>
    (match natsOf [t, n, i] with
     | some [t, n, i] => ({ d with s := { d.s with txr := upd d.s.txr t (some (n, i)) }, tk := addKeys d.tk [t], nk := addKeys d.nk [n] }, "ok")
     | _ => (d, "bad-op"))
  | ["connect", p] :: _ =>
    (match p.toNat? with
     | some p => runEv { d with pk := addKeys d.pk [p] } (.connect p)
     | none => (d, "bad-op"))
  | ["disconnect", p] :: _ =>
    (match p.toNat? with
     | some p => runEv { d with pk := addKeys d.pk [p] } (.disconnect p)
     | none => (d, "bad-op"))
  | ["reorg"] :: _ => runEv d .reorg
  | ["fetch-header", h, now] :: _ =>
    (match natsOf [h, now] with
     | some [h, now] => runEv { d with hk := addKeys d.hk [h] } (.fetchHeader h now)
     | _ => (d, "bad-op"))
  | ["fetch-tx", t, now, pe] :: _ =>
    (match natsOf [t, now, pe] with
     | some [t, now, pe] => runEv { d with tk := addKeys d.tk [t] } (.fetchTx t now (pe = 1))
     | _ => (d, "bad-op"))
  | ["get-tx", t, pe] :: _ =>
    (match natsOf [t, pe] with
     | some [t, pe] => runEv { d with tk := addKeys d.tk [t] } (.getTx t (pe = 1))
     | _ => (d, "bad-op"))
  | ["get-header", h, ip] :: _ =>
    (match natsOf [h, ip] with
     | some [h, ip] => runEv { d with hk := addKeys d.hk [h] } (.getHeader h (ip = 1))
     | _ => (d, "bad-op"))
  | ["tick", now, tip] :: best :: ch :: ct :: _ =>
    (match natsOf [now, tip], natsOf best, natsOf ch, natsOf ct with
     | some [now, tip], some best, some ch, some ct =>
       runEv { d with hk := addKeys d.hk (tip :: ch), tk := addKeys d.tk ct, pk := addKeys d.pk best }
         (.fetchTick now tip best ch ct)
     | _, _, _, _ => (d, "bad-op"))
  | ["refresh", now] :: cands :: sto :: _ =>
    (match now.toNat?, natsOf cands, natsOf sto with
     | some now, some cands, some sto => runEv { d with pk := addKeys d.pk cands } (.refreshTick now cands sto)
     | _, _, _ => (d, "bad-op"))
  | ["bp", p, l, pe, v1, ls, pw, wf, ex, mm] :: hs :: miss :: _ =>
    (match natsOf [p, l, pe, v1, ls, pw, wf, ex, mm], parseHdrs hs, natsOf miss with
     | some [p, l, pe, v1, ls, pw, wf, ex, mm], some hs, some miss =>
       runEv { d with pk := addKeys d.pk [p], hk := addKeys d.hk (l :: hs.map (·.hash) ++ miss),
                      nk := addKeys d.nk (hs.map (·.number)) }
         (.blocksProof p ⟨l, pe = 1, hs, miss, v1 = 1, ls, pw = 1, wf = 1, ex = 1, mm = 1⟩)
     | _, _, _ => (d, "bad-op"))
  | ["tp", p, l, pe, v1, ls, pw, wf, ex, mm] :: miss :: blks =>
    (match natsOf [p, l, pe, v1, ls, pw, wf, ex, mm], natsOf miss, (blks.filter (· ≠ [])).mapM parseFBlk with
     | some [p, l, pe, v1, ls, pw, wf, ex, mm], some miss, some blks =>
       runEv { d with pk := addKeys d.pk [p], hk := addKeys d.hk (l :: blks.map (·.header.hash)),
                      nk := addKeys d.nk (blks.map (·.header.number)),
                      tk := addKeys d.tk (miss ++ blks.flatMap (·.txs)) }
         (.txsProof p ⟨l, pe = 1, blks, miss, v1 = 1, ls, pw = 1, wf = 1, ex = 1, mm = 1⟩)
     | _, _, _ => (d, "bad-op"))
  | ["block", h, n, e, bo] :: txs :: rec :: next :: env =>
    (match natsOf [h, n, bo], optOf e, parsePairsB txs, optList rec,
        (if next = ["-"] then some none else (parsePairsB next).map some) with
     | some [h, n, bo], some e, some txs, some rec, some next =>
       let d0 := { d with hk := addKeys d.hk (h :: (rec.getD []) ++ ((next.getD []).map (·.1))), nk := addKeys d.nk [n],
                          tk := addKeys d.tk (txs.map (·.1)) }
       -- the block, then (optionally) the request `prove_or_download_matched_blocks` issued for
       -- the next record: the environment event `envProveReq p tip now hashes`
       (match env with
        | (p :: tip :: now :: hs) :: _ =>
          (match natsOf [p, tip, now], natsOf hs with
           | some [p, tip, now], some hs =>
             (match step d0.cfg d0.s (.block ⟨h, n, e, txs, bo = 1⟩ rec next) with
              | .ok (s1, o) =>
                (match step d0.cfg s1 (.envProveReq p tip now hs) with
                 | .ok (s2, _) =>
                   let d' := { d0 with s := s2, pk := addKeys d0.pk [p], hk := addKeys d0.hk (tip :: hs) }
                   (d', showOut o ++ " || " ++ dump d')
                 | .error x => (d, showPanic x))
              | .error x => (d, showPanic x))
           | _, _ => (d, "bad-op"))
        | _ => runEv d0 (.block ⟨h, n, e, txs, bo = 1⟩ rec next))
     | _, _, _, _, _ => (d, "bad-op"))
  | _ => (d, "bad-op")

end Proofs

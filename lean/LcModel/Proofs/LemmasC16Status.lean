import LcModel.Proofs.LemmasC16
/-! helper lemmas for C16 (Status part) -/
namespace Proofs

/-! ### per-key relations on fetch entries -/

/-- the entry is kept, `missing` and `firstSent` untouched (everything but `idle`, `markMissing`,
`fetchRead`) -/
def st_KeepS (f f' : Option FetchInfo) : Prop :=
  match f, f' with
  | none, none => True
  | some fi, some fi' => fi'.missing = fi.missing ∧ fi'.firstSent = fi.firstSent
  | _, _ => False

/-- the entry is kept, `missing` untouched, a sent entry stays sent (`idle`) -/
def st_KeepW (f f' : Option FetchInfo) : Prop :=
  match f, f' with
  | none, none => True
  | some fi, some fi' => fi'.missing = fi.missing ∧ (0 < fi.firstSent → 0 < fi'.firstSent)
  | _, _ => False

theorem st_KeepS_refl (f : Option FetchInfo) : st_KeepS f f := by
  cases f <;> simp [st_KeepS]

theorem st_KeepS_trans {f g h : Option FetchInfo} (a : st_KeepS f g) (b : st_KeepS g h) :
    st_KeepS f h := by
  cases f <;> cases g <;> cases h <;> simp_all [st_KeepS]

theorem st_KeepW_refl (f : Option FetchInfo) : st_KeepW f f := by
  cases f <;> simp [st_KeepW]

theorem st_KeepW_trans {f g h : Option FetchInfo} (a : st_KeepW f g) (b : st_KeepW g h) :
    st_KeepW f h := by
  cases f <;> cases g <;> cases h <;> simp_all [st_KeepW]

theorem st_KeepS_W {f g : Option FetchInfo} (a : st_KeepS f g) : st_KeepW f g := by
  cases f <;> cases g <;> simp_all [st_KeepS, st_KeepW]

/-- "quiet" change of one key: a record is never deleted, and unless the record is there
afterwards the fetch entry is kept -/
def st_Qk (R : Option FetchInfo → Option FetchInfo → Prop) (b b' : Bool)
    (f f' : Option FetchInfo) : Prop :=
  (b = true → b' = true) ∧ (b' = true ∨ R f f')

theorem st_Qk_refl {R : Option FetchInfo → Option FetchInfo → Prop} (hR : ∀ f, R f f)
    (b : Bool) (f : Option FetchInfo) : st_Qk R b b f f := ⟨id, Or.inr (hR f)⟩

theorem st_Qk_trans {R : Option FetchInfo → Option FetchInfo → Prop}
    (hR : ∀ {f g h}, R f g → R g h → R f h) {b b' b'' : Bool} {f f' f'' : Option FetchInfo}
    (h1 : st_Qk R b b' f f') (h2 : st_Qk R b' b'' f' f'') : st_Qk R b b'' f f'' := by
  refine ⟨fun h => h2.1 (h1.1 h), ?_⟩
  rcases h2.2 with h | h
  · exact Or.inl h
  · rcases h1.2 with h' | h'
    · exact Or.inl (h2.1 h')
    · exact Or.inr (hR h' h)

theorem st_Qk_mono {R R' : Option FetchInfo → Option FetchInfo → Prop}
    (hR : ∀ {f g}, R f g → R' f g) {b b' : Bool} {f f' : Option FetchInfo}
    (h : st_Qk R b b' f f') : st_Qk R' b b' f f' :=
  ⟨h.1, h.2.imp id hR⟩

theorem st_Qk_stored (R : Option FetchInfo → Option FetchInfo → Prop) (b : Bool)
    (f f' : Option FetchInfo) : st_Qk R b true f f' := ⟨fun _ => rfl, Or.inl rfl⟩

/-! ### the status automaton (copy of `C16.Edge`) -/

inductive st_Edge : Status → Status → Prop
  | stay (a : Status) : st_Edge a a
  | add : st_Edge .absent .added
  | send : st_Edge .added .fetching
  | missing : st_Edge .fetching .notFound
  | retry : st_Edge .notFound .added
  | stored (a : Status) : st_Edge a .fetched

theorem st_edge_of_Qk {b b' : Bool} {f f' : Option FetchInfo} (h : st_Qk st_KeepW b b' f f') :
    st_Edge (statusOf b f) (statusOf b' f') := by
  rcases h with ⟨h1, h2⟩
  cases b' with
  | true => simp only [statusOf]; exact .stored _
  | false =>
    cases b with
    | true => simp at h1
    | false =>
      simp at h2
      cases f with
      | none => cases f' with
        | none => exact .stay _
        | some fi' => simp [st_KeepW] at h2
      | some fi => cases f' with
        | none => simp [st_KeepW] at h2
        | some fi' =>
          simp only [st_KeepW] at h2
          simp only [statusOf, h2.1]
          by_cases hm : fi.missing = true
          · simp [hm]; exact .stay _
          · by_cases hs : 0 < fi.firstSent
            · have := h2.2 hs
              simp [hm, hs, this]; exact .stay _
            · by_cases hs' : 0 < fi'.firstSent
              · simp [hm, hs, hs']; exact .send
              · simp [hm, hs, hs']; exact .stay _

theorem st_nf_of_Qk {b b' : Bool} {f f' : Option FetchInfo} (h : st_Qk st_KeepW b b' f f')
    (h1 : statusOf b' f' = .notFound) : statusOf b f = .notFound := by
  rcases h with ⟨h1', h2⟩
  cases b' with
  | true => simp [statusOf] at h1
  | false =>
    cases b with
    | true => simp at h1'
    | false =>
      simp at h2
      cases f with
      | none => cases f' with
        | none => exact h1
        | some fi' => simp [st_KeepW] at h2
      | some fi => cases f' with
        | none => simp [st_KeepW] at h2
        | some fi' =>
          simp only [st_KeepW] at h2
          simp only [statusOf, h2.1] at h1 ⊢
          by_cases hm : fi.missing = true
          · simp [hm]
          · simp [hm] at h1
            split at h1 <;> simp at h1

/-! ### quiet changes of the state -/

structure st_Fr (s s' : St) : Prop where
  conn : s'.conn = s.conn
  breq : s'.breq = s.breq
  treq : s'.treq = s.treq

def st_QH (R : Option FetchInfo → Option FetchInfo → Prop) (s s' : St) : Prop :=
  ∀ k, st_Qk R (s.hdr k).isSome (s'.hdr k).isSome (s.fh k) (s'.fh k)
def st_QT (R : Option FetchInfo → Option FetchInfo → Prop) (s s' : St) : Prop :=
  ∀ k, st_Qk R (s.txr k).isSome (s'.txr k).isSome (s.ft k) (s'.ft k)

structure st_Q (s s' : St) : Prop where
  fr : st_Fr s s'
  hk : st_QH st_KeepS s s'
  tk : st_QT st_KeepS s s'

theorem st_Q_refl (s : St) : st_Q s s :=
  ⟨⟨rfl, rfl, rfl⟩, fun _ => st_Qk_refl st_KeepS_refl _ _, fun _ => st_Qk_refl st_KeepS_refl _ _⟩

theorem st_Q_trans {s s' s'' : St} (a : st_Q s s') (b : st_Q s' s'') : st_Q s s'' :=
  ⟨⟨b.fr.conn.trans a.fr.conn, b.fr.breq.trans a.fr.breq, b.fr.treq.trans a.fr.treq⟩,
   fun k => st_Qk_trans (R := st_KeepS) st_KeepS_trans (a.hk k) (b.hk k),
   fun k => st_Qk_trans (R := st_KeepS) st_KeepS_trans (a.tk k) (b.tk k)⟩

theorem st_Q_foldl {α} (f : St → α → St) (hf : ∀ s x, st_Q s (f s x)) (l : List α) (s : St) :
    st_Q s (l.foldl f s) := by
  induction l generalizing s with
  | nil => exact st_Q_refl s
  | cons x xs ih => exact st_Q_trans (hf s x) (ih (f s x))

/-- only fields outside the seven observed ones change -/
theorem st_Q_of_eq {s s' : St} (h1 : s'.conn = s.conn) (h2 : s'.breq = s.breq)
    (h3 : s'.treq = s.treq) (h4 : s'.fh = s.fh) (h5 : s'.ft = s.ft) (h6 : s'.hdr = s.hdr)
    (h7 : s'.txr = s.txr) : st_Q s s' := by
  refine ⟨⟨h1, h2, h3⟩, fun k => ?_, fun k => ?_⟩
  · rw [h4, h6]; exact st_Qk_refl st_KeepS_refl _ _
  · rw [h5, h7]; exact st_Qk_refl st_KeepS_refl _ _

theorem st_KeepS_markTimeout (f : Nat → Option FetchInfo) (l : List Nat) (k : Nat) :
    st_KeepS (f k) (markTimeout f l k) := by
  unfold markTimeout
  split
  · cases f k <;> simp [st_KeepS]
  · exact st_KeepS_refl _

theorem st_Q_markPeerH (s : St) (p : Nat) : st_Q s (markPeerH s p) := by
  unfold markPeerH
  split
  · refine ⟨⟨rfl, rfl, rfl⟩, fun k => ⟨id, Or.inr (st_KeepS_markTimeout _ _ _)⟩,
      fun _ => st_Qk_refl st_KeepS_refl _ _⟩
  · exact st_Q_refl s

theorem st_Q_markPeerT (s : St) (p : Nat) : st_Q s (markPeerT s p) := by
  unfold markPeerT
  split
  · refine ⟨⟨rfl, rfl, rfl⟩, fun _ => st_Qk_refl st_KeepS_refl _ _,
      fun k => ⟨id, Or.inr (st_KeepS_markTimeout _ _ _)⟩⟩
  · exact st_Q_refl s

theorem st_Q_storeHdr (cfg : Cfg) (s : St) (h : Hdr) : st_Q s (storeHdr cfg s h) := by
  refine ⟨⟨rfl, rfl, rfl⟩, fun k => ?_, fun _ => st_Qk_refl st_KeepS_refl _ _⟩
  by_cases hk : k = h.hash
  · subst hk; simp [storeHdr, upd]; exact st_Qk_stored _ _ _ _
  · simp [storeHdr, upd, hk]; exact st_Qk_refl st_KeepS_refl _ _

theorem st_storeHdr_hdr (cfg : Cfg) (s : St) (h : Hdr) :
    ((storeHdr cfg s h).hdr h.hash).isSome = true := by
  simp [storeHdr, upd]


theorem st_Q_bpStore (cfg : Cfg) (v1 : Bool) (s : St) (h : Hdr) : st_Q s (bpStore cfg v1 s h) := by
  unfold bpStore
  split
  · refine ⟨⟨rfl, rfl, rfl⟩, fun k => ?_, fun _ => st_Qk_refl st_KeepS_refl _ _⟩
    by_cases hk : k = h.hash
    · subst hk; simp [storeHdr, upd]; exact st_Qk_stored _ _ _ _
    · simp [storeHdr, upd, hk]; exact st_Qk_refl st_KeepS_refl _ _
  · exact st_Q_refl s

theorem st_Q_addFetchedTx (cfg : Cfg) (s : St) (t : Nat) (h : Hdr) :
    st_Q s (addFetchedTx cfg s t h) ∧ ((addFetchedTx cfg s t h).txr t).isSome = true ∧
    ((addFetchedTx cfg s t h).hdr h.hash).isSome = true := by
  have hs := st_Q_storeHdr cfg s h
  have key : ∀ c : Bool, (c = true → (s.txr t).isSome = true) →
      ∀ r, r = (if c then storeHdr cfg s h else
        { storeHdr cfg s h with txr := upd (storeHdr cfg s h).txr t (some (h.number, NO_INDEX)) }) →
      st_Q s r ∧ (r.txr t).isSome = true ∧ (r.hdr h.hash).isSome = true := by
    intro c hc r hr
    cases c with
    | true =>
      simp at hr; subst hr
      exact ⟨hs, hc rfl, st_storeHdr_hdr cfg s h⟩
    | false =>
      simp at hr; subst hr
      refine ⟨⟨⟨hs.fr.conn, hs.fr.breq, hs.fr.treq⟩, hs.hk, fun k => ?_⟩, by simp [upd], st_storeHdr_hdr cfg s h⟩
      by_cases hk : k = t
      · subst hk; simp [upd]; exact st_Qk_stored _ _ _ _
      · simp [upd, hk]; exact hs.tk k
  refine key _ ?_ _ rfl
  intro hc
  cases ht : s.txr t with
  | none => simp [ht] at hc
  | some x => rfl

theorem st_Q_tpStoreTx (cfg : Cfg) (h : Hdr) (s : St) (t : Nat) : st_Q s (tpStoreTx cfg h s t) := by
  unfold tpStoreTx
  split
  · have ha := st_Q_addFetchedTx cfg { s with ft := upd s.ft t none, fh := upd s.fh h.hash none } t h
    obtain ⟨hq, ht, hh⟩ := ha
    refine ⟨⟨hq.fr.conn, hq.fr.breq, hq.fr.treq⟩, fun k => ?_, fun k => ?_⟩
    · by_cases hk : k = h.hash
      · subst hk; rw [hh]; exact st_Qk_stored _ _ _ _
      · have := hq.hk k
        simpa [upd, hk] using this
    · by_cases hk : k = t
      · subst hk; rw [ht]; exact st_Qk_stored _ _ _ _
      · have := hq.tk k
        simpa [upd, hk] using this
  · exact st_Q_refl s

theorem st_Q_tpStoreBlk (cfg : Cfg) (v1 : Bool) (s : St) (b : FBlk) :
    st_Q s (tpStoreBlk cfg v1 s b) := by
  unfold tpStoreBlk
  exact st_Q_foldl _ (fun s x => st_Q_tpStoreTx cfg _ s x) _ _

theorem st_indexTxs_mono (n : Nat) (l : List (Nat × Bool)) (f : Nat → Option (Nat × Nat)) (i k : Nat)
    (h : (f k).isSome = true) : (indexTxs f n i l k).isSome = true := by
  induction l generalizing f i with
  | nil => simpa [indexTxs] using h
  | cons x xs ih =>
    obtain ⟨t, touch⟩ := x
    simp only [indexTxs]
    apply ih
    cases touch
    · simpa using h
    · by_cases hk : k = t
      · simp [upd, hk]
      · simpa [upd, hk] using h

theorem st_Q_filterBlock (s : St) (b : Blk) : st_Q s (filterBlock s b) := by
  have h1 : st_Q s { s with txr := indexTxs s.txr b.number 0 b.txs } := by
    refine ⟨⟨rfl, rfl, rfl⟩, fun _ => st_Qk_refl st_KeepS_refl _ _, fun k => ?_⟩
    exact ⟨fun h => st_indexTxs_mono _ _ _ _ _ h, Or.inr (st_KeepS_refl _)⟩
  unfold filterBlock
  simp only []
  split
  · refine st_Q_trans h1 ⟨⟨rfl, rfl, rfl⟩, fun k => ?_, fun _ => st_Qk_refl st_KeepS_refl _ _⟩
    by_cases hk : k = b.hash
    · subst hk; simp [upd]; exact st_Qk_stored _ _ _ _
    · simp [upd, hk]; exact st_Qk_refl st_KeepS_refl _ _
  · exact h1

theorem st_Q_onBlock (cfg : Cfg) (s : St) (b : Blk) (record : Option (List Nat))
    (next : Option (List (Nat × Bool))) (r : St × BlkOut)
    (h : onBlock cfg s b record next = .ok r) : st_Q s r.1 := by
  unfold onBlock at h
  split at h
  · cases h; exact st_Q_refl s
  · simp only [] at h
    split at h
    · split at h
      · cases h
      · split at h
        · cases h
        · split at h
          · cases h
          · cases h
            exact st_Q_trans (st_Q_foldl _ st_Q_filterBlock _ _)
              (st_Q_of_eq rfl rfl rfl rfl rfl rfl rfl)
    · cases h; exact st_Q_of_eq rfl rfl rfl rfl rfl rfl rfl


theorem st_Q_markTimeoutH (s : St) (l : List Nat) : st_Q s { s with fh := markTimeout s.fh l } :=
  ⟨⟨rfl, rfl, rfl⟩, fun _ => ⟨id, Or.inr (st_KeepS_markTimeout _ _ _)⟩,
    fun _ => st_Qk_refl st_KeepS_refl _ _⟩

theorem st_Q_markTimeoutT (s : St) (l : List Nat) : st_Q s { s with ft := markTimeout s.ft l } :=
  ⟨⟨rfl, rfl, rfl⟩, fun _ => st_Qk_refl st_KeepS_refl _ _,
    fun _ => ⟨id, Or.inr (st_KeepS_markTimeout _ _ _)⟩⟩

/-- inversion of `bpInner`: the state changes quietly, or the answer is accepted (empty or full)
and the reported hashes are marked missing after the headers are stored -/
theorem st_bpInner_cases (cfg : Cfg) (s : St) (p : Nat) (m : BMsg) (r : St × Nat)
    (hr : bpInner cfg s p m = r) :
    st_Q s r.1 ∨
    ∃ req s2, s.conn p = true ∧ s.breq p = some req ∧ m.lastHash = req.lastHash ∧
      checkHashes req.hashes (m.headers.map (·.hash)) m.missing = true ∧
      (m.headers ≠ [] → AcceptedB req m) ∧ st_Q s s2 ∧
      r = ({ s2 with fh := markMissing s2.fh m.missing }, OK) := by
  unfold bpInner at hr
  split at hr
  · subst hr; left; exact st_Q_refl s
  · rename_i hc
    split at hr
    · subst hr; left; exact st_Q_refl s
    · rename_i req hreq
      split at hr
      · left
        split at hr
        · split at hr
          · subst hr; exact st_Q_refl s
          · subst hr; exact st_Q_markTimeoutH s _
        · subst hr; exact st_Q_refl s
      · rename_i hl
        split at hr
        · subst hr; left; exact st_Q_refl s
        · rename_i hch
          split at hr
          · rename_i he
            split at hr
            · subst hr; left; exact st_Q_refl s
            · right
              refine ⟨req, s, by simpa using hc, hreq, by simpa [eq_comm] using hl, by simpa using hch,
                ?_, st_Q_refl s, hr.symm⟩
              intro hne; simp [hne] at he
          · rename_i he
            split at hr
            · subst hr; left; exact st_Q_refl s
            · rename_i hpow
              split at hr
              · subst hr; left; exact st_Q_refl s
              · rename_i hwf
                split at hr
                · subst hr; left; exact st_Q_refl s
                · rename_i hex
                  split at hr
                  · subst hr; left; exact st_Q_refl s
                  · rename_i hmmr
                    right
                    refine ⟨req, _, by simpa using hc, hreq, by simpa [eq_comm] using hl,
                      by simpa using hch, ?_, ?_, hr.symm⟩
                    · intro _
                      refine ⟨by simpa [eq_comm] using hl, by simpa using hch, by simpa using hpow,
                        ?_, by simpa using hmmr⟩
                      intro hv
                      simp [hv] at hwf hex
                      exact ⟨hwf, hex⟩
                    · refine st_Q_trans (s' := if req.getBlocks then
                        { s with mb := markProved s.mb (m.headers.map (·.hash)) } else s) ?_
                        (st_Q_foldl _ (st_Q_bpStore cfg m.v1) _ _)
                      split
                      · exact st_Q_of_eq rfl rfl rfl rfl rfl rfl rfl
                      · exact st_Q_refl s


theorem st_tpInner_cases (cfg : Cfg) (s : St) (p : Nat) (m : TMsg) (r : St × Nat)
    (hr : tpInner cfg s p m = r) :
    st_Q s r.1 ∨
    ∃ req s2, s.conn p = true ∧ s.treq p = some req ∧ m.lastHash = req.lastHash ∧
      checkHashes req.hashes (m.blocks.flatMap (·.txs)) m.missing = true ∧
      (m.blocks ≠ [] → AcceptedT req m) ∧ st_Q s s2 ∧
      r = ({ s2 with ft := markMissing s2.ft m.missing }, OK) := by
  unfold tpInner at hr
  split at hr
  · subst hr; left; exact st_Q_refl s
  · rename_i hc
    split at hr
    · subst hr; left; exact st_Q_refl s
    · rename_i req hreq
      split at hr
      · left
        split at hr
        · split at hr
          · subst hr; exact st_Q_refl s
          · subst hr; exact st_Q_markTimeoutT s _
        · subst hr; exact st_Q_refl s
      · rename_i hl
        split at hr
        · subst hr; left; exact st_Q_refl s
        · rename_i hch
          split at hr
          · rename_i he
            split at hr
            · subst hr; left; exact st_Q_refl s
            · right
              refine ⟨req, s, by simpa using hc, hreq, by simpa [eq_comm] using hl, by simpa using hch,
                ?_, st_Q_refl s, hr.symm⟩
              intro hne; simp [hne] at he
          · rename_i he
            split at hr
            · subst hr; left; exact st_Q_refl s
            · rename_i hpow
              split at hr
              · subst hr; left; exact st_Q_refl s
              · rename_i hwf
                split at hr
                · subst hr; left; exact st_Q_refl s
                · rename_i hex
                  split at hr
                  · subst hr; left; exact st_Q_refl s
                  · rename_i hmmr
                    split at hr
                    · subst hr; left; exact st_Q_refl s
                    · rename_i hmk
                      right
                      refine ⟨req, _, by simpa using hc, hreq, by simpa [eq_comm] using hl,
                        by simpa using hch, ?_, st_Q_foldl _ (st_Q_tpStoreBlk cfg m.v1) _ _, hr.symm⟩
                      intro _
                      refine ⟨by simpa [eq_comm] using hl, by simpa using hch, by simpa using hpow,
                        ?_, by simpa using hmmr, by simpa using hmk⟩
                      intro hv
                      simp [hv] at hwf hex
                      exact ⟨hwf, hex⟩

theorem st_breq_clear (s1 : St) (p q : Nat) (b : Nat → Option BReq) (hb : s1.breq = b) :
    (if s1.conn p then upd s1.breq p none else s1.breq) q = b q ∨
    (if s1.conn p then upd s1.breq p none else s1.breq) q = none := by
  subst hb
  split
  · by_cases hq : q = p
    · right; simp [upd, hq]
    · left; simp [upd, hq]
  · left; rfl

theorem st_treq_clear (s1 : St) (p q : Nat) (b : Nat → Option TReq) (hb : s1.treq = b) :
    (if s1.conn p then upd s1.treq p none else s1.treq) q = b q ∨
    (if s1.conn p then upd s1.treq p none else s1.treq) q = none := by
  subst hb
  split
  · by_cases hq : q = p
    · right; simp [upd, hq]
    · left; simp [upd, hq]
  · left; rfl

/-- inversion of `onBlocksProof` -/
theorem st_onBlocksProof_cases (cfg : Cfg) (s : St) (p : Nat) (m : BMsg) (r : St × Nat)
    (hr : onBlocksProof cfg s p m = r) :
    r.1.conn = s.conn ∧ r.1.treq = s.treq ∧ (∀ q, r.1.breq q = s.breq q ∨ r.1.breq q = none) ∧
    ((st_QH st_KeepS s r.1 ∧ st_QT st_KeepS s r.1) ∨
     (r.2 = OK ∧ ∃ req s2, slotB s p = some req ∧ m.lastHash = req.lastHash ∧
        checkHashes req.hashes (m.headers.map (·.hash)) m.missing = true ∧
        (m.headers ≠ [] → AcceptedB req m) ∧ st_Q s s2 ∧ r.1.hdr = s2.hdr ∧
        r.1.fh = markMissing s2.fh m.missing ∧ r.1.ft = s2.ft ∧ r.1.txr = s2.txr)) := by
  unfold onBlocksProof at hr
  simp only [] at hr
  rcases st_bpInner_cases cfg s p m _ rfl with hq | ⟨req, s2, hc, hreq, hl, hch, hacc, hq, he⟩
  · generalize bpInner cfg s p m = r0 at hr hq
    have h1 : st_Q s (if cfg.markOnReject && !isOk r0.2 then markPeerH r0.1 p else r0.1) := by
      split
      · exact st_Q_trans hq (st_Q_markPeerH _ _)
      · exact hq
    generalize (if cfg.markOnReject && !isOk r0.2 then markPeerH r0.1 p else r0.1) = s1 at hr h1
    subst hr
    exact ⟨h1.fr.conn, h1.fr.treq, fun q => st_breq_clear s1 p q _ h1.fr.breq,
      Or.inl ⟨fun k => h1.hk k, fun k => h1.tk k⟩⟩
  · rw [he] at hr
    simp [isOk, OK] at hr
    subst hr
    refine ⟨hq.fr.conn, hq.fr.treq, fun q => st_breq_clear _ p q _ hq.fr.breq, Or.inr ⟨rfl, req, s2,
      by simp [slotB, hc, hreq], hl, hch, hacc, hq, rfl, rfl, rfl, rfl⟩⟩

/-- inversion of `onTxsProof` -/
theorem st_onTxsProof_cases (cfg : Cfg) (s : St) (p : Nat) (m : TMsg) (r : St × Nat)
    (hr : onTxsProof cfg s p m = r) :
    r.1.conn = s.conn ∧ r.1.breq = s.breq ∧ (∀ q, r.1.treq q = s.treq q ∨ r.1.treq q = none) ∧
    ((st_QH st_KeepS s r.1 ∧ st_QT st_KeepS s r.1) ∨
     (r.2 = OK ∧ ∃ req s2, slotT s p = some req ∧ m.lastHash = req.lastHash ∧
        checkHashes req.hashes (m.blocks.flatMap (·.txs)) m.missing = true ∧
        (m.blocks ≠ [] → AcceptedT req m) ∧ st_Q s s2 ∧ r.1.txr = s2.txr ∧
        r.1.ft = markMissing s2.ft m.missing ∧ r.1.fh = s2.fh ∧ r.1.hdr = s2.hdr)) := by
  unfold onTxsProof at hr
  simp only [] at hr
  rcases st_tpInner_cases cfg s p m _ rfl with hq | ⟨req, s2, hc, hreq, hl, hch, hacc, hq, he⟩
  · generalize tpInner cfg s p m = r0 at hr hq
    have h1 : st_Q s (if cfg.markOnReject && !isOk r0.2 then markPeerT r0.1 p else r0.1) := by
      split
      · exact st_Q_trans hq (st_Q_markPeerT _ _)
      · exact hq
    generalize (if cfg.markOnReject && !isOk r0.2 then markPeerT r0.1 p else r0.1) = s1 at hr h1
    subst hr
    exact ⟨h1.fr.conn, h1.fr.breq, fun q => st_treq_clear s1 p q _ h1.fr.treq,
      Or.inl ⟨fun k => h1.hk k, fun k => h1.tk k⟩⟩
  · rw [he] at hr
    simp [isOk, OK] at hr
    subst hr
    refine ⟨hq.fr.conn, hq.fr.breq, fun q => st_treq_clear _ p q _ hq.fr.treq, Or.inr ⟨rfl, req, s2,
      by simp [slotT, hc, hreq], hl, hch, hacc, hq, rfl, rfl, rfl, rfl⟩⟩


/-! ### timers, connections -/

theorem st_upd_clear {α} (f : Nat → Option α) (p q : Nat) :
    upd f p none q = f q ∨ upd f p none q = none := by
  by_cases hq : q = p
  · right; simp [upd, hq]
  · left; simp [upd, hq]

theorem st_disconnect (s : St) (p : Nat) :
    st_QH st_KeepS s (disconnect s p) ∧ st_QT st_KeepS s (disconnect s p) ∧
    (∀ q, (disconnect s p).breq q = s.breq q ∨ (disconnect s p).breq q = none) ∧
    (∀ q, (disconnect s p).treq q = s.treq q ∨ (disconnect s p).treq q = none) := by
  have h1 : st_Q s (markPeerT (markPeerH s p) p) :=
    st_Q_trans (st_Q_markPeerH s p) (st_Q_markPeerT _ p)
  unfold disconnect
  simp only []
  generalize markPeerT (markPeerH s p) p = s1 at h1
  refine ⟨fun k => h1.hk k, fun k => h1.tk k, fun q => ?_, fun q => ?_⟩
  · have := st_upd_clear s1.breq p q
    rw [h1.fr.breq] at this
    simpa [h1.fr.breq] using this
  · have := st_upd_clear s1.treq p q
    rw [h1.fr.treq] at this
    simpa [h1.fr.treq] using this

theorem st_Q_refreshTick (cfg : Cfg) (s : St) (now : Nat) (cands stateTO : List Nat) :
    st_Q s (refreshTick cfg s now cands stateTO).1 := by
  unfold refreshTick
  exact st_Q_foldl _ (fun s p => st_Q_trans (st_Q_markPeerH s p) (st_Q_markPeerT _ p)) _ _

theorem st_KeepW_idle (f : Nat → Option FetchInfo) (c : List Nat) (now k : Nat) :
    st_KeepW (f k) (idle f c now k) := by
  unfold idle
  split
  · cases f k with
    | none => simp [st_KeepW]
    | some fi =>
      simp only [Option.map, st_KeepW, true_and]
      intro h
      have : fi.firstSent ≠ 0 := by omega
      simp [this]; exact h
  · exact st_KeepW_refl _

theorem st_chunkF_mem (n : Nat) (fuel : Nat) (l c : List Nat) (hc : c ∈ chunkF n fuel l)
    (k : Nat) (hk : k ∈ c) : k ∈ l := by
  induction fuel generalizing l with
  | zero => simp [chunkF] at hc
  | succ fuel ih =>
    simp only [chunkF] at hc
    split at hc
    · simp at hc
    · rcases List.mem_cons.mp hc with h | h
      · subst h; exact List.mem_of_mem_take hk
      · exact List.mem_of_mem_drop (ih _ h)

theorem st_chunk_mem (n : Nat) (l c : List Nat) (hc : c ∈ chunk n l) (k : Nat) (hk : k ∈ c) :
    k ∈ l := st_chunkF_mem n _ l c hc k hk

theorem st_toFetch_mem (f : Nat → Option FetchInfo) (cands : List Nat) (k : Nat)
    (hk : k ∈ toFetch f cands) : sendable f k = true ∧ k ∈ cands := by
  unfold toFetch at hk
  rw [List.mem_filter] at hk
  exact ⟨hk.2, List.mem_eraseDups.mp hk.1⟩

theorem st_sendH (now tip : Nat) (best : List Nat) (cs : List (List Nat)) (s : St) :
    (sendH now tip best s cs).1.conn = s.conn ∧ (sendH now tip best s cs).1.treq = s.treq ∧
    (sendH now tip best s cs).1.ft = s.ft ∧ (sendH now tip best s cs).1.hdr = s.hdr ∧
    (sendH now tip best s cs).1.txr = s.txr ∧
    (∀ k, st_KeepW (s.fh k) ((sendH now tip best s cs).1.fh k)) ∧
    ∀ p, (sendH now tip best s cs).1.breq p = s.breq p ∨
      (p ∈ best ∧ s.conn p = true ∧ s.breq p = none ∧
        ∃ c ∈ cs, (sendH now tip best s cs).1.breq p = some ⟨tip, c, false, now⟩) := by
  induction cs generalizing s with
  | nil => exact ⟨rfl, rfl, rfl, rfl, rfl, fun _ => st_KeepW_refl _, fun _ => Or.inl rfl⟩
  | cons c cs ih =>
    unfold sendH
    cases hf : findIdleB s best with
    | none => exact ⟨rfl, rfl, rfl, rfl, rfl, fun _ => st_KeepW_refl _, fun _ => Or.inl rfl⟩
    | some p0 =>
      simp only []
      have hp0 := List.find?_some hf
      have hm0 := List.mem_of_find?_eq_some hf
      simp at hp0
      obtain ⟨i1, i2, i3, i4, i5, i6, i7⟩ :=
        ih { s with breq := upd s.breq p0 (some ⟨tip, c, false, now⟩), fh := idle s.fh c now }
      refine ⟨i1, i2, i3, i4, i5, fun k => st_KeepW_trans (st_KeepW_idle s.fh c now k) (i6 k),
        fun p => ?_⟩
      rcases i7 p with h | ⟨h1, h2, h3, c', hc', h4⟩
      · by_cases hp : p = p0
        · subst hp
          right
          refine ⟨hm0, hp0.1, hp0.2, c, List.mem_cons_self, ?_⟩
          rw [h]; simp [upd]
        · left; rw [h]; simp [upd, hp]
      · by_cases hp : p = p0
        · subst hp; simp [upd] at h3
        · right
          simp [upd, hp] at h3
          exact ⟨h1, h2, h3, c', List.mem_cons_of_mem _ hc', h4⟩

theorem st_sendT (now tip : Nat) (best : List Nat) (cs : List (List Nat)) (s : St) :
    (sendT now tip best s cs).1.conn = s.conn ∧ (sendT now tip best s cs).1.breq = s.breq ∧
    (sendT now tip best s cs).1.fh = s.fh ∧ (sendT now tip best s cs).1.hdr = s.hdr ∧
    (sendT now tip best s cs).1.txr = s.txr ∧
    (∀ k, st_KeepW (s.ft k) ((sendT now tip best s cs).1.ft k)) ∧
    ∀ p, (sendT now tip best s cs).1.treq p = s.treq p ∨
      (p ∈ best ∧ s.conn p = true ∧ s.treq p = none ∧
        ∃ c ∈ cs, (sendT now tip best s cs).1.treq p = some ⟨tip, c, now⟩) := by
  induction cs generalizing s with
  | nil => exact ⟨rfl, rfl, rfl, rfl, rfl, fun _ => st_KeepW_refl _, fun _ => Or.inl rfl⟩
  | cons c cs ih =>
    unfold sendT
    cases hf : findIdleT s best with
    | none => exact ⟨rfl, rfl, rfl, rfl, rfl, fun _ => st_KeepW_refl _, fun _ => Or.inl rfl⟩
    | some p0 =>
      simp only []
      have hp0 := List.find?_some hf
      have hm0 := List.mem_of_find?_eq_some hf
      simp at hp0
      obtain ⟨i1, i2, i3, i4, i5, i6, i7⟩ :=
        ih { s with treq := upd s.treq p0 (some ⟨tip, c, now⟩), ft := idle s.ft c now }
      refine ⟨i1, i2, i3, i4, i5, fun k => st_KeepW_trans (st_KeepW_idle s.ft c now k) (i6 k),
        fun p => ?_⟩
      rcases i7 p with h | ⟨h1, h2, h3, c', hc', h4⟩
      · by_cases hp : p = p0
        · subst hp
          right
          refine ⟨hm0, hp0.1, hp0.2, c, List.mem_cons_self, ?_⟩
          rw [h]; simp [upd]
        · left; rw [h]; simp [upd, hp]
      · by_cases hp : p = p0
        · subst hp; simp [upd] at h3
        · right
          simp [upd, hp] at h3
          exact ⟨h1, h2, h3, c', List.mem_cons_of_mem _ hc', h4⟩


/-! ### RPCs -/

theorem st_fetchRead_k (f : Nat → Option FetchInfo) (k now x : Nat) :
    (fetchRead f k now).1 x = f x ∨
    (x = k ∧ (fetchRead f k now).1 x = some (newAdd now) ∧
      (f k = none ∨ ∃ fi, f k = some fi ∧ fi.missing = true)) := by
  unfold fetchRead
  cases hk : f k with
  | none =>
    simp only []
    by_cases hx : x = k
    · right; subst hx; simp [upd]
    · left; simp [upd, hx]
  | some fi =>
    simp only []
    split
    · rename_i hm
      by_cases hx : x = k
      · right; subst hx; simp [upd, hm]
      · left; simp [upd, hx]
    · split <;> exact Or.inl rfl

theorem st_edge_fetchRead (b : Bool) (f : Nat → Option FetchInfo) (k now x : Nat) :
    st_Edge (statusOf b (f x)) (statusOf b ((fetchRead f k now).1 x)) := by
  rcases st_fetchRead_k f k now x with h | ⟨hx, h, h0⟩
  · rw [h]; exact .stay _
  · rw [h]; subst hx
    cases b with
    | true => exact .stay _
    | false =>
      rcases h0 with h0 | ⟨fi, h0, hm⟩
      · rw [h0]; simp [statusOf, newAdd]; exact .add
      · rw [h0]; simp [statusOf, newAdd, hm]; exact .retry

theorem st_nf_fetchRead (b : Bool) (f : Nat → Option FetchInfo) (k now x : Nat)
    (h1 : statusOf b ((fetchRead f k now).1 x) = .notFound) : statusOf b (f x) = .notFound := by
  rcases st_fetchRead_k f k now x with h | ⟨hx, h, h0⟩
  · rwa [h] at h1
  · rw [h] at h1
    cases b <;> simp [statusOf, newAdd] at h1

theorem st_rpcGetTx_unknown (s : St) (t : Nat) (pending : Bool)
    (h : rpcGetTx s t pending = .ok .unknown) : s.txr t = none := by
  unfold rpcGetTx getTxWithHeader at h
  cases ht : s.txr t with
  | none => rfl
  | some x =>
    obtain ⟨n, i⟩ := x
    rw [ht] at h
    simp only [] at h
    cases hn : s.num n with
    | none => rw [hn] at h; simp at h
    | some bh =>
      rw [hn] at h
      simp only [] at h
      cases hh : s.hdr bh with
      | none => rw [hh] at h; simp at h
      | some y => rw [hh] at h; simp at h

theorem st_rpcFetchTx (s : St) (t now : Nat) (pending : Bool) (r : St × FStatus × TxAns)
    (h : rpcFetchTx s t now pending = .ok r) :
    (r.1 = s ∧ r.2.1 = .fetched ∧ r.2.2 ≠ .unknown) ∨
    (s.txr t = none ∧ rpcGetTx s t pending = .ok .unknown ∧
      r = ({ s with ft := (fetchRead s.ft t now).1 }, (fetchRead s.ft t now).2, .unknown)) := by
  unfold rpcFetchTx at h
  cases hg : rpcGetTx s t pending with
  | error e => rw [hg] at h; simp at h
  | ok a =>
    rw [hg] at h
    cases a with
    | unknown =>
      simp only [Except.ok.injEq] at h
      exact Or.inr ⟨st_rpcGetTx_unknown s t pending hg, rfl, h.symm⟩
    | committed b =>
      simp only [Except.ok.injEq] at h
      subst h; left; simp
    | pending =>
      simp only [Except.ok.injEq] at h
      subst h; left; simp

theorem st_rpcFetchHeader_frame (s : St) (h now : Nat) :
    (rpcFetchHeader s h now).1.conn = s.conn ∧ (rpcFetchHeader s h now).1.breq = s.breq ∧
    (rpcFetchHeader s h now).1.treq = s.treq ∧ (rpcFetchHeader s h now).1.ft = s.ft ∧
    (rpcFetchHeader s h now).1.hdr = s.hdr ∧ (rpcFetchHeader s h now).1.txr = s.txr := by
  unfold rpcFetchHeader
  split <;> exact ⟨rfl, rfl, rfl, rfl, rfl, rfl⟩

/-! ### one step -/

theorem st_QH_of_eq {s s' : St} (h1 : s'.fh = s.fh) (h2 : s'.hdr = s.hdr) :
    st_QH st_KeepW s s' := by
  intro k; rw [h1, h2]; exact st_Qk_refl st_KeepW_refl _ _

theorem st_QT_of_eq {s s' : St} (h1 : s'.ft = s.ft) (h2 : s'.txr = s.txr) :
    st_QT st_KeepW s s' := by
  intro k; rw [h1, h2]; exact st_Qk_refl st_KeepW_refl _ _

theorem st_QH_W {s s' : St} (h : st_QH st_KeepS s s') : st_QH st_KeepW s s' :=
  fun k => st_Qk_mono (fun a => st_KeepS_W a) (h k)

theorem st_QT_W {s s' : St} (h : st_QT st_KeepS s s') : st_QT st_KeepW s s' :=
  fun k => st_Qk_mono (fun a => st_KeepS_W a) (h k)

theorem st_Q_all {s s' : St} (h : st_Q s s') :
    st_QH st_KeepW s s' ∧ st_QT st_KeepW s s' ∧
    (∀ p, s'.breq p = s.breq p ∨ s'.breq p = none) ∧
    (∀ p, s'.treq p = s.treq p ∨ s'.treq p = none) :=
  ⟨st_QH_W h.hk, st_QT_W h.tk, fun p => Or.inl (by rw [h.fr.breq]), fun p => Or.inl (by rw [h.fr.treq])⟩

theorem st_step_frame (cfg : Cfg) (s s' : St) (e : Ev) (o : Out)
    (h : step cfg s e = .ok (s', o)) :
    ((∀ p m, e ≠ .blocksProof p m) → (∀ a b, e ≠ .fetchHeader a b) → st_QH st_KeepW s s') ∧
    ((∀ p m, e ≠ .txsProof p m) → (∀ a b c, e ≠ .fetchTx a b c) → st_QT st_KeepW s s') ∧
    ((∀ a b c d f, e ≠ .fetchTick a b c d f) → (∀ a b c d, e ≠ .envProveReq a b c d) →
      ∀ p, s'.breq p = s.breq p ∨ s'.breq p = none) ∧
    ((∀ a b c d f, e ≠ .fetchTick a b c d f) → ∀ p, s'.treq p = s.treq p ∨ s'.treq p = none) := by
  cases e with
  | connect p =>
    simp only [step, Except.ok.injEq, Prod.mk.injEq] at h
    obtain ⟨rfl, rfl⟩ := h
    exact ⟨fun _ _ => st_QH_of_eq rfl rfl, fun _ _ => st_QT_of_eq rfl rfl,
      fun _ _ q => st_upd_clear s.breq p q, fun _ q => st_upd_clear s.treq p q⟩
  | disconnect p =>
    simp only [step, Except.ok.injEq, Prod.mk.injEq] at h
    obtain ⟨rfl, rfl⟩ := h
    obtain ⟨h1, h2, h3, h4⟩ := st_disconnect s p
    exact ⟨fun _ _ => st_QH_W h1, fun _ _ => st_QT_W h2, fun _ _ => h3, fun _ => h4⟩
  | fetchHeader a now =>
    simp only [step, Except.ok.injEq, Prod.mk.injEq] at h
    obtain ⟨rfl, rfl⟩ := h
    obtain ⟨_, h2, h3, h4, _, h6⟩ := st_rpcFetchHeader_frame s a now
    exact ⟨fun _ hx => absurd rfl (hx a now), fun _ _ => st_QT_of_eq h4 h6,
      fun _ _ q => Or.inl (by rw [h2]), fun _ q => Or.inl (by rw [h3])⟩
  | fetchTx t now pending =>
    simp only [step] at h
    cases hr : rpcFetchTx s t now pending with
    | error x => rw [hr] at h; simp at h
    | ok r =>
      rw [hr] at h
      simp only [Except.ok.injEq, Prod.mk.injEq] at h
      obtain ⟨rfl, rfl⟩ := h
      rcases st_rpcFetchTx s t now pending r hr with ⟨h1, _⟩ | ⟨_, _, h1⟩
      · rw [h1]
        exact ⟨fun _ _ => st_QH_of_eq rfl rfl, fun _ _ => st_QT_of_eq rfl rfl,
          fun _ _ q => Or.inl rfl, fun _ q => Or.inl rfl⟩
      · rw [h1]
        exact ⟨fun _ _ => st_QH_of_eq rfl rfl, fun _ hx => absurd rfl (hx t now pending),
          fun _ _ q => Or.inl rfl, fun _ q => Or.inl rfl⟩
  | getTx t pending =>
    simp only [step] at h
    cases hr : rpcGetTx s t pending with
    | error x => rw [hr] at h; simp at h
    | ok r =>
      rw [hr] at h
      simp only [Except.ok.injEq, Prod.mk.injEq] at h
      obtain ⟨rfl, rfl⟩ := h
      exact ⟨fun _ _ => st_QH_of_eq rfl rfl, fun _ _ => st_QT_of_eq rfl rfl,
        fun _ _ q => Or.inl rfl, fun _ q => Or.inl rfl⟩
  | getHeader a b =>
    simp only [step, Except.ok.injEq, Prod.mk.injEq] at h
    obtain ⟨rfl, rfl⟩ := h
    exact ⟨fun _ _ => st_QH_of_eq rfl rfl, fun _ _ => st_QT_of_eq rfl rfl,
      fun _ _ q => Or.inl rfl, fun _ q => Or.inl rfl⟩
  | fetchTick now tip best ch ct =>
    simp only [step, Except.ok.injEq, Prod.mk.injEq] at h
    obtain ⟨rfl, rfl⟩ := h
    unfold fetchTick
    simp only []
    obtain ⟨a1, a2, a3, a4, a5, a6, a7⟩ :=
      st_sendH now tip best (chunk cfg.blocksLimit (toFetch s.fh ch)) s
    generalize (sendH now tip best s (chunk cfg.blocksLimit (toFetch s.fh ch))).1 = s1 at *
    obtain ⟨b1, b2, b3, b4, b5, b6, b7⟩ :=
      st_sendT now tip best (chunk cfg.txsLimit (toFetch s1.ft ct)) s1
    generalize (sendT now tip best s1 (chunk cfg.txsLimit (toFetch s1.ft ct))).1 = s2 at *
    refine ⟨fun _ _ k => ?_, fun _ _ k => ?_, fun hx => absurd rfl (hx _ _ _ _ _),
      fun hx => absurd rfl (hx _ _ _ _ _)⟩
    · rw [b3, b4, a4]; exact ⟨id, Or.inr (a6 k)⟩
    · rw [b5, a5, ← a3]; exact ⟨id, Or.inr (b6 k)⟩
  | refreshTick now cands sto =>
    simp only [step, Except.ok.injEq, Prod.mk.injEq] at h
    obtain ⟨rfl, rfl⟩ := h
    obtain ⟨h1, h2, h3, h4⟩ := st_Q_all (st_Q_refreshTick cfg s now cands sto)
    exact ⟨fun _ _ => h1, fun _ _ => h2, fun _ _ => h3, fun _ => h4⟩
  | blocksProof p m =>
    simp only [step, Except.ok.injEq, Prod.mk.injEq] at h
    obtain ⟨rfl, rfl⟩ := h
    obtain ⟨_, h2, h3, h4⟩ := st_onBlocksProof_cases cfg s p m _ rfl
    refine ⟨fun hx _ => absurd rfl (hx p m), fun _ _ => ?_, fun _ _ => h3,
      fun _ q => Or.inl (by rw [h2])⟩
    rcases h4 with ⟨_, h4⟩ | ⟨_, req, s2, _, _, _, _, hq, _, _, e3, e4⟩
    · exact st_QT_W h4
    · intro k; rw [e3, e4]; exact st_QT_W hq.tk k
  | txsProof p m =>
    simp only [step, Except.ok.injEq, Prod.mk.injEq] at h
    obtain ⟨rfl, rfl⟩ := h
    obtain ⟨_, h2, h3, h4⟩ := st_onTxsProof_cases cfg s p m _ rfl
    refine ⟨fun _ _ => ?_, fun hx _ => absurd rfl (hx p m), fun _ _ q => Or.inl (by rw [h2]),
      fun _ => h3⟩
    rcases h4 with ⟨h4, _⟩ | ⟨_, req, s2, _, _, _, _, hq, _, _, e3, e4⟩
    · exact st_QH_W h4
    · intro k; rw [e3, e4]; exact st_QH_W hq.hk k
  | block b record next =>
    simp only [step] at h
    cases hr : onBlock cfg s b record next with
    | error x => rw [hr] at h; simp at h
    | ok r =>
      rw [hr] at h
      simp only [Except.ok.injEq, Prod.mk.injEq] at h
      obtain ⟨rfl, rfl⟩ := h
      obtain ⟨h1, h2, h3, h4⟩ := st_Q_all (st_Q_onBlock cfg s b record next r hr)
      exact ⟨fun _ _ => h1, fun _ _ => h2, fun _ _ => h3, fun _ => h4⟩
  | reorg =>
    simp only [step, Except.ok.injEq, Prod.mk.injEq] at h
    obtain ⟨rfl, rfl⟩ := h
    exact ⟨fun _ _ => st_QH_of_eq rfl rfl, fun _ _ => st_QT_of_eq rfl rfl,
      fun _ _ q => Or.inl rfl, fun _ q => Or.inl rfl⟩
  | envMatched l =>
    simp only [step, Except.ok.injEq, Prod.mk.injEq] at h
    obtain ⟨rfl, rfl⟩ := h
    exact ⟨fun _ _ => st_QH_of_eq rfl rfl, fun _ _ => st_QT_of_eq rfl rfl,
      fun _ _ q => Or.inl rfl, fun _ q => Or.inl rfl⟩
  | envProveReq p tip now hs =>
    simp only [step] at h
    split at h <;>
    · simp only [Except.ok.injEq, Prod.mk.injEq] at h
      obtain ⟨rfl, rfl⟩ := h
      exact ⟨fun _ _ => st_QH_of_eq rfl rfl, fun _ _ => st_QT_of_eq rfl rfl,
        fun _ hx => absurd rfl (hx _ _ _ _), fun _ q => Or.inl rfl⟩


/-! ### `markMissing` after a quiet change -/

def st_miss (c : Bool) (f : Option FetchInfo) : Option FetchInfo :=
  if c then f.map (fun fi => { fi with missing := true }) else f

theorem st_markMissing_eq (f : Nat → Option FetchInfo) (l : List Nat) (k : Nat) :
    markMissing f l k = st_miss (l.contains k) (f k) := rfl

theorem st_edge_markMissing {b b2 : Bool} {f f2 : Option FetchInfo}
    (hq : st_Qk st_KeepS b b2 f f2) (c : Bool)
    (hx : c = true → ¬ ∃ fi, f = some fi ∧ fi.firstSent = 0 ∧ fi.missing = false) :
    st_Edge (statusOf b f) (statusOf b2 (st_miss c f2)) := by
  cases c with
  | false => exact st_edge_of_Qk (st_Qk_mono (fun a => st_KeepS_W a) hq)
  | true =>
    have hx := hx rfl
    rcases hq with ⟨h1, h2⟩
    cases b2 with
    | true => simp only [statusOf]; exact .stored _
    | false =>
      cases b with
      | true => simp at h1
      | false =>
        simp at h2
        cases f with
        | none => cases f2 with
          | none => exact .stay _
          | some fi' => simp [st_KeepS] at h2
        | some fi => cases f2 with
          | none => simp [st_KeepS] at h2
          | some fi' =>
            simp only [st_KeepS] at h2
            simp only [statusOf, st_miss, Option.map]
            by_cases hm : fi.missing = true
            · simp [hm]; exact .stay _
            · by_cases hs : 0 < fi.firstSent
              · simp [hm, hs]; exact .missing
              · exfalso; apply hx
                exact ⟨fi, rfl, by omega, by simpa using hm⟩

theorem st_nf_markMissing {b b2 : Bool} {f f2 : Option FetchInfo}
    (hq : st_Qk st_KeepS b b2 f f2) (c : Bool)
    (h1 : statusOf b2 (st_miss c f2) = .notFound) (h0 : statusOf b f ≠ .notFound) : c = true := by
  cases c with
  | true => rfl
  | false => exact absurd (st_nf_of_Qk (st_Qk_mono (fun a => st_KeepS_W a) hq) h1) h0

theorem st_stale_markMissing {b b2 : Bool} {f f2 : Option FetchInfo}
    (hq : st_Qk st_KeepS b b2 f f2) (c : Bool) (fi : FetchInfo) (hf : f = some fi)
    (h1 : fi.firstSent = 0) (h2 : fi.missing = false) :
    statusOf b f = .fetched ∨ (statusOf b f = .added ∧
      (statusOf b2 (st_miss c f2) = .notFound ∨ statusOf b2 (st_miss c f2) = .added ∨
       statusOf b2 (st_miss c f2) = .fetched)) := by
  subst hf
  cases b with
  | true => left; rfl
  | false =>
    right
    refine ⟨by simp [statusOf, h1, h2], ?_⟩
    cases b2 with
    | true => right; right; rfl
    | false =>
      have h3 := hq.2
      simp at h3
      cases f2 with
      | none => simp [st_KeepS] at h3
      | some fi' =>
        simp only [st_KeepS] at h3
        cases c with
        | true => left; simp [statusOf, st_miss]
        | false => right; left; simp [statusOf, st_miss, h3.1, h3.2, h1, h2]

end Proofs

import LcModel.Proofs.LemmasC16
/-! helper lemmas for C16 (Served part) -/
namespace Proofs

/-! ### the generic invariant (one fetch map, one table of request slots) -/

def sv_G (f : Nat → Option FetchInfo) (slot : Nat → Option (List Nat)) : Prop :=
  ∀ k fi, f k = some fi →
    fi.firstSent = 0 ∨ fi.timeout = true ∨ fi.missing = true ∨ ∃ p hs, slot p = some hs ∧ k ∈ hs

def sv_hsB (s : St) (p : Nat) : Option (List Nat) := (slotB s p).map (·.hashes)
def sv_hsT (s : St) (p : Nat) : Option (List Nat) := (slotT s p).map (·.hashes)

theorem sv_servedH_iff (s : St) : ServedH s ↔ sv_G s.fh (sv_hsB s) := by
  unfold ServedH sv_G sv_hsB
  constructor
  · intro h k fi hk
    rcases h k fi hk with h | h | h | ⟨p, r, h1, h2⟩
    · exact .inl h
    · exact .inr (.inl h)
    · exact .inr (.inr (.inl h))
    · exact .inr (.inr (.inr ⟨p, r.hashes, by simp [h1], h2⟩))
  · intro h k fi hk
    rcases h k fi hk with h | h | h | ⟨p, hs, h1, h2⟩
    · exact .inl h
    · exact .inr (.inl h)
    · exact .inr (.inr (.inl h))
    · rcases Option.map_eq_some_iff.1 h1 with ⟨r, hr, rfl⟩
      exact .inr (.inr (.inr ⟨p, r, hr, h2⟩))

theorem sv_servedT_iff (s : St) : ServedT s ↔ sv_G s.ft (sv_hsT s) := by
  unfold ServedT sv_G sv_hsT
  constructor
  · intro h k fi hk
    rcases h k fi hk with h | h | h | ⟨p, r, h1, h2⟩
    · exact .inl h
    · exact .inr (.inl h)
    · exact .inr (.inr (.inl h))
    · exact .inr (.inr (.inr ⟨p, r.hashes, by simp [h1], h2⟩))
  · intro h k fi hk
    rcases h k fi hk with h | h | h | ⟨p, hs, h1, h2⟩
    · exact .inl h
    · exact .inr (.inl h)
    · exact .inr (.inr (.inl h))
    · rcases Option.map_eq_some_iff.1 h1 with ⟨r, hr, rfl⟩
      exact .inr (.inr (.inr ⟨p, r, hr, h2⟩))

theorem sv_G_master {f f' : Nat → Option FetchInfo} {slot slot' : Nat → Option (List Nat)}
    (h : sv_G f slot)
    (H : ∀ k fi', f' k = some fi' →
      fi'.firstSent = 0 ∨ fi'.timeout = true ∨ fi'.missing = true ∨
      (∃ q hs, slot' q = some hs ∧ k ∈ hs) ∨
      (f k = some fi' ∧ ∀ q hs, slot q = some hs → k ∈ hs → ∃ q' hs', slot' q' = some hs' ∧ k ∈ hs')) :
    sv_G f' slot' := by
  intro k fi' hk
  rcases H k fi' hk with h1 | h1 | h1 | h1 | ⟨h1, h2⟩
  · exact .inl h1
  · exact .inr (.inl h1)
  · exact .inr (.inr (.inl h1))
  · exact .inr (.inr (.inr h1))
  · rcases h k fi' h1 with h3 | h3 | h3 | ⟨q, hs, h3, h4⟩
    · exact .inl h3
    · exact .inr (.inl h3)
    · exact .inr (.inr (.inl h3))
    · exact .inr (.inr (.inr (h2 q hs h3 h4)))

/-- entries only become trivially served, vanish or stay; occupied slots stay -/
theorem sv_G_weak {f f' : Nat → Option FetchInfo} {slot slot' : Nat → Option (List Nat)}
    (h : sv_G f slot)
    (H : ∀ k fi', f' k = some fi' →
      fi'.firstSent = 0 ∨ fi'.timeout = true ∨ fi'.missing = true ∨ f k = some fi')
    (S : ∀ q hs, slot q = some hs → slot' q = some hs) : sv_G f' slot' := by
  apply sv_G_master h
  intro k fi' hk
  rcases H k fi' hk with h1 | h1 | h1 | h1
  · exact .inl h1
  · exact .inr (.inl h1)
  · exact .inr (.inr (.inl h1))
  · exact .inr (.inr (.inr (.inr ⟨h1, fun q hs h2 h3 => ⟨q, hs, S q hs h2, h3⟩⟩)))

/-- the slot of `p` is cleared: its entries were marked or vanished -/
theorem sv_G_clear {f f' : Nat → Option FetchInfo} {slot slot' : Nat → Option (List Nat)}
    (h : sv_G f slot) (p : Nat) (hs0 : List Nat) (hp : slot p = some hs0)
    (S : ∀ q, q ≠ p → slot' q = slot q)
    (H : ∀ k fi', f' k = some fi' →
      fi'.timeout = true ∨ fi'.missing = true ∨ (k ∉ hs0 ∧ f k = some fi')) : sv_G f' slot' := by
  apply sv_G_master h
  intro k fi' hk
  rcases H k fi' hk with h1 | h1 | ⟨h1, h2⟩
  · exact .inr (.inl h1)
  · exact .inr (.inr (.inl h1))
  · refine .inr (.inr (.inr (.inr ⟨h2, ?_⟩)))
    intro q hs h3 h4
    have hq : q ≠ p := by
      intro e; subst e; rw [hp] at h3; cases h3; exact h1 h4
    exact ⟨q, hs, by rw [S q hq]; exact h3, h4⟩

/-- an empty slot is cleared -/
theorem sv_G_clear_none {f f' : Nat → Option FetchInfo} {slot slot' : Nat → Option (List Nat)}
    (h : sv_G f slot) (p : Nat) (hp : slot p = none)
    (S : ∀ q, q ≠ p → slot' q = slot q) (H : f' = f) : sv_G f' slot' := by
  subst H
  apply sv_G_weak h
  · intro k fi' hk; exact .inr (.inr (.inr hk))
  · intro q hs hq
    have : q ≠ p := by intro e; subst e; rw [hp] at hq; cases hq
    rw [S q this]; exact hq

/-! ### marks -/

theorem sv_markTimeout_some {f : Nat → Option FetchInfo} {hs : List Nat} {k : Nat} {fi' : FetchInfo}
    (h : markTimeout f hs k = some fi') :
    (k ∈ hs ∧ fi'.timeout = true) ∨ (k ∉ hs ∧ f k = some fi') := by
  unfold markTimeout at h
  by_cases hk : k ∈ hs
  · simp [hk] at h
    rcases h with ⟨a, _, rfl⟩
    exact .inl ⟨hk, rfl⟩
  · simp [hk] at h
    exact .inr ⟨hk, h⟩

theorem sv_markMissing_some {f : Nat → Option FetchInfo} {hs : List Nat} {k : Nat} {fi' : FetchInfo}
    (h : markMissing f hs k = some fi') :
    (k ∈ hs ∧ fi'.missing = true) ∨ (k ∉ hs ∧ f k = some fi') := by
  unfold markMissing at h
  by_cases hk : k ∈ hs
  · simp [hk] at h
    rcases h with ⟨a, _, rfl⟩
    exact .inl ⟨hk, rfl⟩
  · simp [hk] at h
    exact .inr ⟨hk, h⟩

theorem sv_idle_some {f : Nat → Option FetchInfo} {hs : List Nat} {now k : Nat} {fi' : FetchInfo}
    (h : idle f hs now k = some fi') : k ∈ hs ∨ (k ∉ hs ∧ f k = some fi') := by
  unfold idle at h
  by_cases hk : k ∈ hs
  · exact .inl hk
  · simp [hk] at h
    exact .inr ⟨hk, h⟩

/-- `markPeerT ∘ markPeerH` -/
def sv_mk (s : St) (p : Nat) : St := markPeerT (markPeerH s p) p

theorem sv_mk_frame (s : St) (p : Nat) :
    (sv_mk s p).conn = s.conn ∧ (sv_mk s p).breq = s.breq ∧ (sv_mk s p).treq = s.treq := by
  unfold sv_mk markPeerT markPeerH
  split <;> split <;> simp

theorem sv_markPeerH_frame (s : St) (p : Nat) :
    (markPeerH s p).conn = s.conn ∧ (markPeerH s p).breq = s.breq ∧ (markPeerH s p).treq = s.treq ∧
    (markPeerH s p).ft = s.ft := by
  unfold markPeerH
  split <;> simp

theorem sv_markPeerT_frame (s : St) (p : Nat) :
    (markPeerT s p).conn = s.conn ∧ (markPeerT s p).breq = s.breq ∧ (markPeerT s p).treq = s.treq ∧
    (markPeerT s p).fh = s.fh := by
  unfold markPeerT
  split <;> simp

theorem sv_markPeerH_fh (s : St) (p : Nat) :
    (markPeerH s p).fh = match slotB s p with
      | some r => markTimeout s.fh r.hashes
      | none => s.fh := by
  cases h : slotB s p <;> simp [markPeerH, h]

theorem sv_markPeerT_ft (s : St) (p : Nat) :
    (markPeerT s p).ft = match slotT s p with
      | some r => markTimeout s.ft r.hashes
      | none => s.ft := by
  cases h : slotT s p <;> simp [markPeerT, h]

theorem sv_slotB_congr {s s' : St} (h1 : s'.conn = s.conn) (h2 : s'.breq = s.breq) (p : Nat) :
    slotB s' p = slotB s p := by
  simp [slotB, h1, h2]

theorem sv_slotT_congr {s s' : St} (h1 : s'.conn = s.conn) (h2 : s'.treq = s.treq) (p : Nat) :
    slotT s' p = slotT s p := by
  simp [slotT, h1, h2]

theorem sv_mk_fh (s : St) (p : Nat) :
    (sv_mk s p).fh = match slotB s p with
      | some r => markTimeout s.fh r.hashes
      | none => s.fh := by
  unfold sv_mk
  rw [(sv_markPeerT_frame _ _).2.2.2, sv_markPeerH_fh]

theorem sv_mk_ft (s : St) (p : Nat) :
    (sv_mk s p).ft = match slotT s p with
      | some r => markTimeout s.ft r.hashes
      | none => s.ft := by
  unfold sv_mk
  have h := sv_markPeerH_frame s p
  rw [sv_markPeerT_ft, sv_slotT_congr h.1 h.2.2.1, h.2.2.2]

/-! ### frames -/

theorem sv_H_frame {s s' : St} (h1 : s'.conn = s.conn) (h2 : s'.breq = s.breq)
    (H : ∀ k fi', s'.fh k = some fi' →
      fi'.firstSent = 0 ∨ fi'.timeout = true ∨ fi'.missing = true ∨ s.fh k = some fi')
    (h : ServedH s) : ServedH s' := by
  rw [sv_servedH_iff] at *
  apply sv_G_weak h H
  intro q hs hq
  simpa [sv_hsB, sv_slotB_congr h1 h2] using hq

theorem sv_T_frame {s s' : St} (h1 : s'.conn = s.conn) (h2 : s'.treq = s.treq)
    (H : ∀ k fi', s'.ft k = some fi' →
      fi'.firstSent = 0 ∨ fi'.timeout = true ∨ fi'.missing = true ∨ s.ft k = some fi')
    (h : ServedT s) : ServedT s' := by
  rw [sv_servedT_iff] at *
  apply sv_G_weak h H
  intro q hs hq
  simpa [sv_hsT, sv_slotT_congr h1 h2] using hq

theorem sv_H_same {s s' : St} (h1 : s'.conn = s.conn) (h2 : s'.breq = s.breq) (h3 : s'.fh = s.fh)
    (h : ServedH s) : ServedH s' :=
  sv_H_frame h1 h2 (by intro k fi' hk; rw [h3] at hk; exact .inr (.inr (.inr hk))) h

theorem sv_T_same {s s' : St} (h1 : s'.conn = s.conn) (h2 : s'.treq = s.treq) (h3 : s'.ft = s.ft)
    (h : ServedT s) : ServedT s' :=
  sv_T_frame h1 h2 (by intro k fi' hk; rw [h3] at hk; exact .inr (.inr (.inr hk))) h

/-- nothing the invariant reads changes -/
def sv_Fr (s s' : St) : Prop :=
  s'.conn = s.conn ∧ s'.breq = s.breq ∧ s'.treq = s.treq ∧ s'.fh = s.fh ∧ s'.ft = s.ft

theorem sv_Fr_refl (s : St) : sv_Fr s s := ⟨rfl, rfl, rfl, rfl, rfl⟩

theorem sv_Fr_trans {a b c : St} (h1 : sv_Fr a b) (h2 : sv_Fr b c) : sv_Fr a c := by
  unfold sv_Fr at *
  rcases h1 with ⟨a1, a2, a3, a4, a5⟩
  rcases h2 with ⟨b1, b2, b3, b4, b5⟩
  exact ⟨b1.trans a1, b2.trans a2, b3.trans a3, b4.trans a4, b5.trans a5⟩

theorem sv_Fr_served {s s' : St} (h : sv_Fr s s') (hs : Served s) : Served s' :=
  ⟨sv_H_same h.1 h.2.1 h.2.2.2.1 hs.1, sv_T_same h.1 h.2.2.1 h.2.2.2.2 hs.2⟩

/-! ### connect / disconnect -/

theorem sv_connect_H (s : St) (p : Nat) (hc : s.conn p = false) (h : ServedH s) :
    ServedH (connect s p) := by
  rw [sv_servedH_iff] at *
  apply sv_G_clear_none h p (by simp [sv_hsB, slotB, hc])
  · intro q hq; simp [sv_hsB, slotB, connect, upd, hq]
  · rfl

theorem sv_connect_T (s : St) (p : Nat) (hc : s.conn p = false) (h : ServedT s) :
    ServedT (connect s p) := by
  rw [sv_servedT_iff] at *
  apply sv_G_clear_none h p (by simp [sv_hsT, slotT, hc])
  · intro q hq; simp [sv_hsT, slotT, connect, upd, hq]
  · rfl

theorem sv_disconnect_slotB (s : St) (p q : Nat) :
    slotB (disconnect s p) q = if q = p then none else slotB s q := by
  have h := sv_mk_frame s p
  unfold sv_mk at h
  by_cases hq : q = p <;> simp [slotB, disconnect, upd, hq, h.1, h.2.1]

theorem sv_disconnect_slotT (s : St) (p q : Nat) :
    slotT (disconnect s p) q = if q = p then none else slotT s q := by
  have h := sv_mk_frame s p
  unfold sv_mk at h
  by_cases hq : q = p <;> simp [slotT, disconnect, upd, hq, h.1, h.2.2]

theorem sv_disconnect_fh (s : St) (p : Nat) : (disconnect s p).fh = (sv_mk s p).fh := rfl
theorem sv_disconnect_ft (s : St) (p : Nat) : (disconnect s p).ft = (sv_mk s p).ft := rfl

theorem sv_disconnect_H (s : St) (p : Nat) (h : ServedH s) : ServedH (disconnect s p) := by
  rw [sv_servedH_iff] at *
  cases hp : slotB s p with
  | none =>
    apply sv_G_clear_none h p (by simp [sv_hsB, hp])
    · intro q hq; simp [sv_hsB, sv_disconnect_slotB, hq]
    · rw [sv_disconnect_fh, sv_mk_fh, hp]
  | some r =>
    apply sv_G_clear h p r.hashes (by simp [sv_hsB, hp])
    · intro q hq; simp [sv_hsB, sv_disconnect_slotB, hq]
    · intro k fi' hk
      rw [sv_disconnect_fh, sv_mk_fh, hp] at hk
      rcases sv_markTimeout_some hk with ⟨_, h1⟩ | h1
      · exact .inl h1
      · exact .inr (.inr h1)

theorem sv_disconnect_T (s : St) (p : Nat) (h : ServedT s) : ServedT (disconnect s p) := by
  rw [sv_servedT_iff] at *
  cases hp : slotT s p with
  | none =>
    apply sv_G_clear_none h p (by simp [sv_hsT, hp])
    · intro q hq; simp [sv_hsT, sv_disconnect_slotT, hq]
    · rw [sv_disconnect_ft, sv_mk_ft, hp]
  | some r =>
    apply sv_G_clear h p r.hashes (by simp [sv_hsT, hp])
    · intro q hq; simp [sv_hsT, sv_disconnect_slotT, hq]
    · intro k fi' hk
      rw [sv_disconnect_ft, sv_mk_ft, hp] at hk
      rcases sv_markTimeout_some hk with ⟨_, h1⟩ | h1
      · exact .inl h1
      · exact .inr (.inr h1)

/-! ### the fetch RPCs -/

theorem sv_fetchRead_cases (f : Nat → Option FetchInfo) (k now : Nat) :
    (fetchRead f k now).1 = f ∨ (fetchRead f k now).1 = upd f k (some (newAdd now)) := by
  unfold fetchRead
  split
  · split
    · exact .inr rfl
    · split <;> exact .inl rfl
  · exact .inr rfl

theorem sv_fetchRead_some {f : Nat → Option FetchInfo} {k now x : Nat} {fi' : FetchInfo}
    (h : (fetchRead f k now).1 x = some fi') : fi'.firstSent = 0 ∨ f x = some fi' := by
  rcases sv_fetchRead_cases f k now with e | e
  · rw [e] at h; exact .inr h
  · rw [e] at h
    unfold upd at h
    split at h
    · cases h; exact .inl rfl
    · exact .inr h

theorem sv_fetchHeader (s : St) (h now : Nat) (hs : Served s) : Served (rpcFetchHeader s h now).1 := by
  unfold rpcFetchHeader
  split
  · exact hs
  · refine ⟨sv_H_frame (s := s) rfl rfl ?_ hs.1, sv_T_same (s := s) rfl rfl rfl hs.2⟩
    intro k fi' hk
    rcases sv_fetchRead_some hk with h1 | h1
    · exact .inl h1
    · exact .inr (.inr (.inr h1))

theorem sv_rpcFetchTx_cases {s : St} {t now : Nat} {pending : Bool} {r : St × FStatus × TxAns}
    (h : rpcFetchTx s t now pending = .ok r) :
    r.1 = s ∨ r.1 = { s with ft := (fetchRead s.ft t now).1 } := by
  unfold rpcFetchTx at h
  split at h
  · cases h
  · cases h; exact .inr rfl
  · cases h; exact .inl rfl

theorem sv_fetchTx {s : St} {t now : Nat} {pending : Bool} {r : St × FStatus × TxAns}
    (h : rpcFetchTx s t now pending = .ok r) (hs : Served s) : Served r.1 := by
  rcases sv_rpcFetchTx_cases h with e | e
  · rw [e]; exact hs
  · rw [e]
    refine ⟨sv_H_same (s := s) rfl rfl rfl hs.1, sv_T_frame (s := s) rfl rfl ?_ hs.2⟩
    intro k fi' hk
    rcases sv_fetchRead_some hk with h1 | h1
    · exact .inl h1
    · exact .inr (.inr (.inr h1))

/-! ### `SendBlock` -/

theorem sv_filterBlock_Fr (s : St) (b : Blk) : sv_Fr s (filterBlock s b) := by
  unfold filterBlock sv_Fr
  split <;> simp

theorem sv_foldFilter_Fr (l : List Blk) (s : St) : sv_Fr s (l.foldl filterBlock s) := by
  induction l generalizing s with
  | nil => exact sv_Fr_refl s
  | cons b l ih => exact sv_Fr_trans (sv_filterBlock_Fr s b) (ih _)

theorem sv_onBlock_Fr {cfg : Cfg} {s : St} {b : Blk} {record : Option (List Nat)}
    {next : Option (List (Nat × Bool))} {r : St × BlkOut}
    (h : onBlock cfg s b record next = .ok r) : sv_Fr s r.1 := by
  unfold onBlock at h
  split at h
  · cases h; exact sv_Fr_refl s
  · simp only at h
    split at h
    · split at h
      · cases h
      · split at h
        · cases h
        · split at h
          · cases h
          · cases h
            have := sv_foldFilter_Fr (sortByNum ((addBlock s.mb b).1.filterMap (·.body))) s
            exact this
    · cases h; exact sv_Fr_refl s

/-! ### `envProveReq`, the FETCH timer -/

theorem sv_envProveReq (s : St) (p : Nat) (r : BReq) (hc : s.conn p = true) (hb : s.breq p = none)
    (hs : Served s) : Served { s with breq := upd s.breq p (some r) } := by
  refine ⟨?_, sv_T_same (s := s) rfl rfl rfl hs.2⟩
  have h := hs.1
  rw [sv_servedH_iff] at *
  apply sv_G_weak h
  · intro k fi' hk; exact .inr (.inr (.inr hk))
  · intro q l hq
    have hq' : q ≠ p := by
      intro e; subst e; simp [sv_hsB, slotB, hb] at hq
    simpa [sv_hsB, slotB, upd, hq'] using hq

theorem sv_G_fill {f : Nat → Option FetchInfo} {slot slot' : Nat → Option (List Nat)}
    (h : sv_G f slot) (p : Nat) (c : List Nat) (now : Nat) (hp : slot p = none)
    (hp' : slot' p = some c) (S : ∀ q, q ≠ p → slot' q = slot q) : sv_G (idle f c now) slot' := by
  apply sv_G_master h
  intro k fi' hk
  rcases sv_idle_some hk with h1 | ⟨_, h1⟩
  · exact .inr (.inr (.inr (.inl ⟨p, c, hp', h1⟩)))
  · refine .inr (.inr (.inr (.inr ⟨h1, ?_⟩)))
    intro q l hq hkl
    have hq' : q ≠ p := by intro e; subst e; rw [hp] at hq; cases hq
    exact ⟨q, l, by rw [S q hq']; exact hq, hkl⟩

theorem sv_findIdleB {s : St} {best : List Nat} {p : Nat} (h : findIdleB s best = some p) :
    s.conn p = true ∧ s.breq p = none ∧ p ∈ best := by
  unfold findIdleB at h
  have h1 := List.find?_some h
  have h2 := List.mem_of_find?_eq_some h
  simp at h1
  exact ⟨h1.1, h1.2, h2⟩

theorem sv_findIdleT {s : St} {best : List Nat} {p : Nat} (h : findIdleT s best = some p) :
    s.conn p = true ∧ s.treq p = none ∧ p ∈ best := by
  unfold findIdleT at h
  have h1 := List.find?_some h
  have h2 := List.mem_of_find?_eq_some h
  simp at h1
  exact ⟨h1.1, h1.2, h2⟩

theorem sv_sendH (now tip : Nat) (best : List Nat) (cs : List (List Nat)) (s : St) :
    (ServedH s → ServedH (sendH now tip best s cs).1) ∧
    (sendH now tip best s cs).1.conn = s.conn ∧ (sendH now tip best s cs).1.treq = s.treq ∧
    (sendH now tip best s cs).1.ft = s.ft := by
  induction cs generalizing s with
  | nil => simp [sendH]
  | cons c cs ih =>
    simp only [sendH]
    split
    · simp
    · rename_i p hp
      have hi := sv_findIdleB hp
      have := ih { s with breq := upd s.breq p (some ⟨tip, c, false, now⟩), fh := idle s.fh c now }
      refine ⟨?_, this.2.1, this.2.2.1, this.2.2.2⟩
      intro hs
      apply this.1
      rw [sv_servedH_iff] at *
      apply sv_G_fill hs p c now
      · simp [sv_hsB, slotB, hi.2.1]
      · simp [sv_hsB, slotB, upd, hi.1]
      · intro q hq; simp [sv_hsB, slotB, upd, hq]

theorem sv_sendT (now tip : Nat) (best : List Nat) (cs : List (List Nat)) (s : St) :
    (ServedT s → ServedT (sendT now tip best s cs).1) ∧
    (sendT now tip best s cs).1.conn = s.conn ∧ (sendT now tip best s cs).1.breq = s.breq ∧
    (sendT now tip best s cs).1.fh = s.fh := by
  induction cs generalizing s with
  | nil => simp [sendT]
  | cons c cs ih =>
    simp only [sendT]
    split
    · simp
    · rename_i p hp
      have hi := sv_findIdleT hp
      have := ih { s with treq := upd s.treq p (some ⟨tip, c, now⟩), ft := idle s.ft c now }
      refine ⟨?_, this.2.1, this.2.2.1, this.2.2.2⟩
      intro hs
      apply this.1
      rw [sv_servedT_iff] at *
      apply sv_G_fill hs p c now
      · simp [sv_hsT, slotT, hi.2.1]
      · simp [sv_hsT, slotT, upd, hi.1]
      · intro q hq; simp [sv_hsT, slotT, upd, hq]

theorem sv_fetchTick (cfg : Cfg) (s : St) (now tip : Nat) (best candsH candsT : List Nat)
    (hs : Served s) : Served (fetchTick cfg s now tip best candsH candsT).1 := by
  unfold fetchTick
  simp only
  have h1 := sv_sendH now tip best (chunk cfg.blocksLimit (toFetch s.fh candsH)) s
  generalize (sendH now tip best s (chunk cfg.blocksLimit (toFetch s.fh candsH))).1 = s1 at *
  have h2 := sv_sendT now tip best (chunk cfg.txsLimit (toFetch s1.ft candsT)) s1
  generalize (sendT now tip best s1 (chunk cfg.txsLimit (toFetch s1.ft candsT))).1 = s2 at *
  have hT1 : ServedT s1 := sv_T_same h1.2.1 h1.2.2.1 h1.2.2.2 hs.2
  exact ⟨sv_H_same h2.2.1 h2.2.2.1 h2.2.2.2 (h1.1 hs.1), h2.1 hT1⟩

/-! ### the REFRESH timer -/

theorem sv_mk_served (s : St) (p : Nat) (hs : Served s) : Served (sv_mk s p) := by
  have hf := sv_mk_frame s p
  constructor
  · apply sv_H_frame hf.1 hf.2.1 _ hs.1
    intro k fi' hk
    rw [sv_mk_fh] at hk
    split at hk
    · rcases sv_markTimeout_some hk with ⟨_, h1⟩ | ⟨_, h1⟩
      · exact .inr (.inl h1)
      · exact .inr (.inr (.inr h1))
    · exact .inr (.inr (.inr hk))
  · apply sv_T_frame hf.1 hf.2.2 _ hs.2
    intro k fi' hk
    rw [sv_mk_ft] at hk
    split at hk
    · rcases sv_markTimeout_some hk with ⟨_, h1⟩ | ⟨_, h1⟩
      · exact .inr (.inl h1)
      · exact .inr (.inr (.inr h1))
    · exact .inr (.inr (.inr hk))

theorem sv_foldMk_served (l : List Nat) (s : St) (hs : Served s) : Served (l.foldl sv_mk s) := by
  induction l generalizing s with
  | nil => exact hs
  | cons p l ih => exact ih _ (sv_mk_served s p hs)

theorem sv_refreshTick_eq (cfg : Cfg) (s : St) (now : Nat) (cands stateTO : List Nat) :
    (refreshTick cfg s now cands stateTO).1 = (refreshTick cfg s now cands stateTO).2.foldl sv_mk s := rfl

theorem sv_foldMk_frame (l : List Nat) (s : St) :
    (l.foldl sv_mk s).conn = s.conn ∧ (l.foldl sv_mk s).breq = s.breq ∧ (l.foldl sv_mk s).treq = s.treq := by
  induction l generalizing s with
  | nil => simp
  | cons p l ih =>
    have h1 := ih (sv_mk s p)
    have h2 := sv_mk_frame s p
    simp only [List.foldl_cons]
    exact ⟨h1.1.trans h2.1, h1.2.1.trans h2.2.1, h1.2.2.trans h2.2.2⟩

def sv_to (fi : FetchInfo) : FetchInfo := { fi with timeout := true }

theorem sv_markTimeout_eq (f : Nat → Option FetchInfo) (hs : List Nat) (k : Nat) :
    markTimeout f hs k = if k ∈ hs then (f k).map sv_to else f k := by
  unfold markTimeout sv_to
  by_cases h : k ∈ hs <;> simp [h]

theorem sv_map_to_to (x : Option FetchInfo) : (x.map sv_to).map sv_to = x.map sv_to := by
  cases x <;> simp [sv_to]

theorem sv_mk_fh_mono (s : St) (p k : Nat) :
    (sv_mk s p).fh k = s.fh k ∨ (sv_mk s p).fh k = (s.fh k).map sv_to := by
  rw [sv_mk_fh]
  split
  · rw [sv_markTimeout_eq]; split
    · exact .inr rfl
    · exact .inl rfl
  · exact .inl rfl

theorem sv_foldMk_mono (l : List Nat) (s : St) (k : Nat) :
    (l.foldl sv_mk s).fh k = s.fh k ∨ (l.foldl sv_mk s).fh k = (s.fh k).map sv_to := by
  induction l generalizing s with
  | nil => exact .inl rfl
  | cons p l ih =>
    simp only [List.foldl_cons]
    rcases ih (sv_mk s p) with h1 | h1 <;> rcases sv_mk_fh_mono s p k with h2 | h2
    · exact .inl (h1.trans h2)
    · exact .inr (h1.trans h2)
    · exact .inr (by rw [h1, h2])
    · exact .inr (by rw [h1, h2, sv_map_to_to])

theorem sv_foldMk_marks (l : List Nat) (s : St) (p k : Nat) (r : BReq) (hp : p ∈ l)
    (hr : slotB s p = some r) (hk : k ∈ r.hashes) :
    (l.foldl sv_mk s).fh k = (s.fh k).map sv_to := by
  induction l generalizing s with
  | nil => cases hp
  | cons q l ih =>
    simp only [List.foldl_cons]
    rcases List.mem_cons.1 hp with e | hp'
    · subst e
      have h1 : (sv_mk s p).fh k = (s.fh k).map sv_to := by
        rw [sv_mk_fh, hr]; simp only; rw [sv_markTimeout_eq]; simp [hk]
      rcases sv_foldMk_mono l (sv_mk s p) k with h2 | h2
      · rw [h2, h1]
      · rw [h2, h1, sv_map_to_to]
    · have hf := sv_mk_frame s q
      have hr' : slotB (sv_mk s q) p = some r := by rw [sv_slotB_congr hf.1 hf.2.1]; exact hr
      rw [ih (sv_mk s q) hp' hr']
      rcases sv_mk_fh_mono s q k with h2 | h2
      · rw [h2]
      · rw [h2, sv_map_to_to]

/-! ### `SendBlocksProof` -/

theorem sv_checkHashes {req recv miss : List Nat} (h : checkHashes req recv miss = true) :
    ∀ k, k ∈ req → k ∈ recv ∨ k ∈ miss := by
  unfold checkHashes at h
  simp at h
  exact h.2

theorem sv_storeHdr_Fr (cfg : Cfg) (s : St) (h : Hdr) : sv_Fr s (storeHdr cfg s h) := by
  unfold storeHdr sv_Fr; simp

theorem sv_bpStore (cfg : Cfg) (v1 : Bool) (s : St) (h : Hdr) :
    (bpStore cfg v1 s h).conn = s.conn ∧ (bpStore cfg v1 s h).breq = s.breq ∧
    (bpStore cfg v1 s h).treq = s.treq ∧ (bpStore cfg v1 s h).ft = s.ft ∧
    ∀ k, (bpStore cfg v1 s h).fh k = if k = h.hash then none else s.fh k := by
  unfold bpStore
  split
  · simp [storeHdr, upd]
  · rename_i hn
    simp at hn
    refine ⟨rfl, rfl, rfl, rfl, ?_⟩
    intro k
    split
    · rename_i e; subst e; exact hn
    · rfl

theorem sv_foldBp (cfg : Cfg) (v1 : Bool) (l : List Hdr) (s : St) :
    (l.foldl (bpStore cfg v1) s).conn = s.conn ∧ (l.foldl (bpStore cfg v1) s).breq = s.breq ∧
    (l.foldl (bpStore cfg v1) s).treq = s.treq ∧ (l.foldl (bpStore cfg v1) s).ft = s.ft ∧
    ∀ k, (l.foldl (bpStore cfg v1) s).fh k = if k ∈ l.map (·.hash) then none else s.fh k := by
  induction l generalizing s with
  | nil => simp
  | cons h l ih =>
    have h1 := ih (bpStore cfg v1 s h)
    have h2 := sv_bpStore cfg v1 s h
    simp only [List.foldl_cons]
    refine ⟨h1.1.trans h2.1, h1.2.1.trans h2.2.1, h1.2.2.1.trans h2.2.2.1, h1.2.2.2.1.trans h2.2.2.2.1, ?_⟩
    intro k
    rw [h1.2.2.2.2 k, h2.2.2.2.2 k]
    by_cases a : k ∈ l.map (·.hash) <;> by_cases b : k = h.hash <;> simp [a, b]
    
def sv_Res (f : Nat → Option FetchInfo) (hs : List Nat) (f' : Nat → Option FetchInfo) : Prop :=
  ∀ k fi', f' k = some fi' → fi'.timeout = true ∨ fi'.missing = true ∨ (k ∉ hs ∧ f k = some fi')

theorem sv_bpInner_frame (cfg : Cfg) (s : St) (p : Nat) (m : BMsg) :
    (bpInner cfg s p m).1.conn = s.conn ∧ (bpInner cfg s p m).1.breq = s.breq ∧
    (bpInner cfg s p m).1.treq = s.treq ∧ (bpInner cfg s p m).1.ft = s.ft := by
  unfold bpInner
  split
  · simp
  split
  · simp
  split
  · split
    · split <;> simp
    · simp
  split
  · simp
  split
  · split <;> simp
  split
  · simp
  split
  · simp
  split
  · simp
  split
  · simp
  have h := sv_foldBp cfg m.v1 m.headers
  simp only
  split
  · have h := h { s with mb := markProved s.mb (m.headers.map (·.hash)) }
    exact ⟨h.1, h.2.1, h.2.2.1, h.2.2.2.1⟩
  · have h := h s
    exact ⟨h.1, h.2.1, h.2.2.1, h.2.2.2.1⟩

theorem sv_slotB_some {s : St} {p : Nat} {r : BReq} (h : slotB s p = some r) :
    s.conn p = true ∧ s.breq p = some r := by
  unfold slotB at h
  split at h
  · exact ⟨by assumption, h⟩
  · cases h

theorem sv_slotB_none {s : St} {p : Nat} (h : slotB s p = none) :
    s.conn p = false ∨ s.breq p = none := by
  unfold slotB at h
  split at h
  · exact .inr h
  · rename_i hc; simp at hc; exact .inl hc

theorem sv_bpInner_none (cfg : Cfg) (s : St) (p : Nat) (m : BMsg) (h : slotB s p = none) :
    (bpInner cfg s p m).1 = s ∧ isOk (bpInner cfg s p m).2 = false := by
  unfold bpInner
  by_cases hc : s.conn p = true
  · have hb : s.breq p = none := by
      rcases sv_slotB_none h with h | h
      · rw [hc] at h; cases h
      · exact h
    simp [hc, hb, isOk, NOT_ON_PROCESS]
  · simp at hc
    simp [hc, isOk, PEER_NOT_FOUND]

theorem sv_rej_mk {α : Type} (s : α) (c l : Nat) (h1 : c ≠ OK) (h2 : isOk c = false) :
    (s, c).2 ≠ OK ∧ (l ≠ 201 → isOk (s, c).2 = false) := ⟨h1, fun _ => h2⟩

theorem sv_bpInner_some (cfg : Cfg) (s : St) (p : Nat) (m : BMsg) (req : BReq)
    (h : slotB s p = some req) :
    ((bpInner cfg s p m).1 = s ∧ (bpInner cfg s p m).2 ≠ OK ∧
      (m.lsCode ≠ 201 → isOk (bpInner cfg s p m).2 = false)) ∨
    ((bpInner cfg s p m).2 = OK ∧ sv_Res s.fh req.hashes (bpInner cfg s p m).1.fh) := by
  have ⟨hc, hb⟩ := sv_slotB_some h
  unfold bpInner
  simp only [hc, hb]
  simp only [Bool.not_true, Bool.false_eq_true, if_false]
  split
  · split
    · split
      · rename_i hl
        refine .inl ⟨rfl, hl, ?_⟩
        intro h2
        simp [isOk, h2]
        exact hl
      · right
        refine ⟨rfl, ?_⟩
        intro k fi' hk
        rcases sv_markTimeout_some hk with ⟨_, h1⟩ | h1
        · exact .inl h1
        · exact .inr (.inr h1)
    · exact .inl ⟨rfl, sv_rej_mk _ _ _ (by decide) (by decide)⟩
  split
  · exact .inl ⟨rfl, sv_rej_mk _ _ _ (by decide) (by decide)⟩
  rename_i hch
  simp at hch
  have hch' := sv_checkHashes hch
  split
  · rename_i hemp
    split
    · exact .inl ⟨rfl, sv_rej_mk _ _ _ (by decide) (by decide)⟩
    · right
      refine ⟨rfl, ?_⟩
      intro k fi' hk
      rcases sv_markMissing_some hk with ⟨_, h1⟩ | ⟨h0, h1⟩
      · exact .inr (.inl h1)
      · refine .inr (.inr ⟨?_, h1⟩)
        intro hkr
        rcases hch' k hkr with h2 | h2
        · simp at hemp; simp [hemp] at h2
        · exact h0 h2
  split
  · exact .inl ⟨rfl, sv_rej_mk _ _ _ (by decide) (by decide)⟩
  split
  · exact .inl ⟨rfl, sv_rej_mk _ _ _ (by decide) (by decide)⟩
  split
  · exact .inl ⟨rfl, sv_rej_mk _ _ _ (by decide) (by decide)⟩
  split
  · exact .inl ⟨rfl, sv_rej_mk _ _ _ (by decide) (by decide)⟩
  right
  refine ⟨rfl, ?_⟩
  intro k fi' hk
  simp only at hk
  rcases sv_markMissing_some hk with ⟨_, h1⟩ | ⟨h0, h1⟩
  · exact .inr (.inl h1)
  · refine .inr (.inr ?_)
    have hf : ∀ s1 : St, s1.fh = s.fh → (m.headers.foldl (bpStore cfg m.v1) s1).fh k = some fi' →
        k ∉ req.hashes ∧ s.fh k = some fi' := by
      intro s1 e1 h3
      rw [(sv_foldBp cfg m.v1 m.headers s1).2.2.2.2 k] at h3
      split at h3
      · cases h3
      · rename_i hnr
        refine ⟨?_, by rw [← e1]; exact h3⟩
        intro hkr
        rcases hch' k hkr with h2 | h2
        · exact hnr h2
        · exact h0 h2
    split at h1
    · refine hf _ ?_ h1; rfl
    · refine hf _ ?_ h1; rfl

theorem sv_clear_slotB (s s1 : St) (p q : Nat) (hc : s1.conn = s.conn) (hb : s1.breq = s.breq) :
    slotB { s1 with breq := if s1.conn p then upd s1.breq p none else s1.breq } q =
      if q = p then none else slotB s q := by
  unfold slotB
  simp only [hc, hb]
  by_cases hq : q = p
  · subst hq
    by_cases h : s.conn q = true <;> simp [h, upd]
  · by_cases h : s.conn p = true <;> simp [h, upd, hq]

theorem sv_clearB_H (s s1 : St) (p : Nat) (hc : s1.conn = s.conn) (hb : s1.breq = s.breq)
    (hfh : match slotB s p with
      | none => s1.fh = s.fh
      | some req => sv_Res s.fh req.hashes s1.fh)
    (hs : ServedH s) :
    ServedH { s1 with breq := if s1.conn p then upd s1.breq p none else s1.breq } := by
  rw [sv_servedH_iff] at *
  cases hp : slotB s p with
  | none =>
    rw [hp] at hfh
    apply sv_G_clear_none hs p (by simp [sv_hsB, hp])
    · intro q hq; simp [sv_hsB, sv_clear_slotB s s1 p q hc hb, hq]
    · exact hfh
  | some req =>
    rw [hp] at hfh
    apply sv_G_clear hs p req.hashes (by simp [sv_hsB, hp])
    · intro q hq; simp [sv_hsB, sv_clear_slotB s s1 p q hc hb, hq]
    · exact hfh

theorem sv_onBlocksProof (cfg : Cfg) (s : St) (p : Nat) (m : BMsg) (hs : Served s)
    (hx : (slotB s p ≠ none → (onBlocksProof cfg s p m).2 = OK) ∨
      (cfg.markOnReject = true ∧ m.lsCode ≠ 201)) :
    Served (onBlocksProof cfg s p m).1 := by
  have hx' : (slotB s p ≠ none → (bpInner cfg s p m).2 = OK) ∨
      (cfg.markOnReject = true ∧ m.lsCode ≠ 201) := hx
  clear hx
  unfold onBlocksProof
  simp only
  have hfr := sv_bpInner_frame cfg s p m
  have hnone := sv_bpInner_none cfg s p m
  have hsome := sv_bpInner_some cfg s p m
  generalize bpInner cfg s p m = r at *
  have hmf := sv_markPeerH_frame r.1 p
  have hmfh := sv_markPeerH_fh r.1 p
  rw [sv_slotB_congr hfr.1 hfr.2.1] at hmfh
  generalize hs1 : (if (cfg.markOnReject && !isOk r.2) = true then markPeerH r.1 p else r.1) = s1
  have hfr1 : s1.conn = s.conn ∧ s1.breq = s.breq ∧ s1.treq = s.treq ∧ s1.ft = s.ft := by
    rw [← hs1]
    split
    · exact ⟨hmf.1.trans hfr.1, hmf.2.1.trans hfr.2.1, hmf.2.2.1.trans hfr.2.2.1,
        hmf.2.2.2.trans hfr.2.2.2⟩
    · exact hfr
  constructor
  · apply sv_clearB_H s s1 p hfr1.1 hfr1.2.1 _ hs.1
    cases hp : slotB s p with
    | none =>
      simp only
      have h1 := hnone hp
      rw [hp] at hmfh
      rw [← hs1]
      split
      · rw [hmfh, h1.1]
      · rw [h1.1]
    | some req =>
      simp only
      rw [hp] at hmfh
      simp only at hmfh
      rcases hsome req hp with ⟨h1, h2, h3⟩ | ⟨h1, h2⟩
      · rcases hx' with hx | ⟨hx1, hx2⟩
        · exact absurd (hx (by rw [hp]; simp)) h2
        · have h4 := h3 hx2
          rw [← hs1]
          simp only [hx1, h4, Bool.not_false, Bool.and_self, if_true]
          rw [hmfh, h1]
          intro k fi' hk
          rcases sv_markTimeout_some hk with ⟨_, h5⟩ | h5
          · exact .inl h5
          · exact .inr (.inr h5)
      · have : isOk r.2 = true := by rw [h1]; decide
        rw [← hs1]
        simp only [this, Bool.not_true, Bool.and_false, Bool.false_eq_true, if_false]
        exact h2
  · apply sv_T_same (s := s) _ _ _ hs.2
    · exact hfr1.1
    · exact hfr1.2.2.1
    · exact hfr1.2.2.2

/-! ### `SendTransactionsProof` -/

def sv_sub (f' f : Nat → Option FetchInfo) : Prop := ∀ k, f' k = none ∨ f' k = f k

theorem sv_sub_refl (f : Nat → Option FetchInfo) : sv_sub f f := fun _ => .inr rfl

theorem sv_sub_trans {a b c : Nat → Option FetchInfo} (h1 : sv_sub b a) (h2 : sv_sub c b) : sv_sub c a := by
  intro k
  rcases h2 k with h | h
  · exact .inl h
  · rcases h1 k with h' | h'
    · exact .inl (h.trans h')
    · exact .inr (h.trans h')

theorem sv_addFetchedTx_Fr (cfg : Cfg) (s : St) (t : Nat) (h : Hdr) : sv_Fr s (addFetchedTx cfg s t h) := by
  have := sv_storeHdr_Fr cfg s h
  unfold addFetchedTx
  simp only
  generalize storeHdr cfg s h = s1 at *
  unfold sv_Fr at *
  split <;> (split <;> simpa using this)

theorem sv_tpStoreTx (cfg : Cfg) (h : Hdr) (s : St) (t : Nat) :
    (tpStoreTx cfg h s t).conn = s.conn ∧ (tpStoreTx cfg h s t).breq = s.breq ∧
    (tpStoreTx cfg h s t).treq = s.treq ∧ sv_sub (tpStoreTx cfg h s t).fh s.fh ∧
    ∀ k, (tpStoreTx cfg h s t).ft k = if k = t then none else s.ft k := by
  unfold tpStoreTx
  split
  · have hf := sv_addFetchedTx_Fr cfg { s with ft := upd s.ft t none, fh := upd s.fh h.hash none } t h
    refine ⟨hf.1, hf.2.1, hf.2.2.1, ?_, ?_⟩
    · rw [hf.2.2.2.1]
      intro k
      simp only [upd]
      split
      · exact .inl rfl
      · exact .inr rfl
    · rw [hf.2.2.2.2]
      intro k
      rfl
  · rename_i hn
    simp at hn
    refine ⟨rfl, rfl, rfl, sv_sub_refl _, ?_⟩
    intro k
    split
    · rename_i e; subst e; exact hn
    · rfl

theorem sv_foldTx (cfg : Cfg) (h : Hdr) (l : List Nat) (s : St) :
    (l.foldl (tpStoreTx cfg h) s).conn = s.conn ∧ (l.foldl (tpStoreTx cfg h) s).breq = s.breq ∧
    (l.foldl (tpStoreTx cfg h) s).treq = s.treq ∧ sv_sub (l.foldl (tpStoreTx cfg h) s).fh s.fh ∧
    ∀ k, (l.foldl (tpStoreTx cfg h) s).ft k = if k ∈ l then none else s.ft k := by
  induction l generalizing s with
  | nil => simp; exact sv_sub_refl _
  | cons t l ih =>
    have h1 := ih (tpStoreTx cfg h s t)
    have h2 := sv_tpStoreTx cfg h s t
    simp only [List.foldl_cons]
    refine ⟨h1.1.trans h2.1, h1.2.1.trans h2.2.1, h1.2.2.1.trans h2.2.2.1,
      sv_sub_trans h2.2.2.2.1 h1.2.2.2.1, ?_⟩
    intro k
    rw [h1.2.2.2.2 k, h2.2.2.2.2 k]
    by_cases a : k ∈ l <;> by_cases b : k = t <;> simp [a, b]

theorem sv_foldBlk (cfg : Cfg) (v1 : Bool) (l : List FBlk) (s : St) :
    (l.foldl (tpStoreBlk cfg v1) s).conn = s.conn ∧ (l.foldl (tpStoreBlk cfg v1) s).breq = s.breq ∧
    (l.foldl (tpStoreBlk cfg v1) s).treq = s.treq ∧ sv_sub (l.foldl (tpStoreBlk cfg v1) s).fh s.fh ∧
    ∀ k, (l.foldl (tpStoreBlk cfg v1) s).ft k = if k ∈ l.flatMap (·.txs) then none else s.ft k := by
  induction l generalizing s with
  | nil => simp; exact sv_sub_refl _
  | cons b l ih =>
    have h1 := ih (tpStoreBlk cfg v1 s b)
    have h2 := sv_foldTx cfg { b.header with ext := if v1 then b.header.ext else none } b.txs s
    simp only [List.foldl_cons]
    change _ ∧ _ ∧ _ ∧ _ ∧ ∀ k, (tpStoreBlk cfg v1 s b).ft k = _ at h2
    refine ⟨h1.1.trans h2.1, h1.2.1.trans h2.2.1, h1.2.2.1.trans h2.2.2.1,
      sv_sub_trans h2.2.2.2.1 h1.2.2.2.1, ?_⟩
    intro k
    rw [h1.2.2.2.2 k, h2.2.2.2.2 k]
    by_cases a : k ∈ l.flatMap (·.txs) <;> by_cases b : k ∈ b.txs <;> simp [a, b]

theorem sv_tpInner_frame (cfg : Cfg) (s : St) (p : Nat) (m : TMsg) :
    (tpInner cfg s p m).1.conn = s.conn ∧ (tpInner cfg s p m).1.breq = s.breq ∧
    (tpInner cfg s p m).1.treq = s.treq ∧ sv_sub (tpInner cfg s p m).1.fh s.fh := by
  have R : ∀ c : Nat, (s, c).1.conn = s.conn ∧ (s, c).1.breq = s.breq ∧
      (s, c).1.treq = s.treq ∧ sv_sub (s, c).1.fh s.fh := fun _ => ⟨rfl, rfl, rfl, sv_sub_refl _⟩
  unfold tpInner
  split
  · exact R _
  split
  · exact R _
  split
  · split
    · split
      · exact R _
      · exact ⟨rfl, rfl, rfl, sv_sub_refl _⟩
    · exact R _
  split
  · exact R _
  split
  · split
    · exact R _
    · exact ⟨rfl, rfl, rfl, sv_sub_refl _⟩
  split
  · exact R _
  split
  · exact R _
  split
  · exact R _
  split
  · exact R _
  split
  · exact R _
  have h := sv_foldBlk cfg m.v1 m.blocks s
  exact ⟨h.1, h.2.1, h.2.2.1, h.2.2.2.1⟩

theorem sv_slotT_some {s : St} {p : Nat} {r : TReq} (h : slotT s p = some r) :
    s.conn p = true ∧ s.treq p = some r := by
  unfold slotT at h
  split at h
  · exact ⟨by assumption, h⟩
  · cases h

theorem sv_slotT_none {s : St} {p : Nat} (h : slotT s p = none) :
    s.conn p = false ∨ s.treq p = none := by
  unfold slotT at h
  split at h
  · exact .inr h
  · rename_i hc; simp at hc; exact .inl hc

theorem sv_tpInner_none (cfg : Cfg) (s : St) (p : Nat) (m : TMsg) (h : slotT s p = none) :
    (tpInner cfg s p m).1 = s ∧ isOk (tpInner cfg s p m).2 = false := by
  unfold tpInner
  by_cases hc : s.conn p = true
  · have hb : s.treq p = none := by
      rcases sv_slotT_none h with h | h
      · rw [hc] at h; cases h
      · exact h
    simp [hc, hb, isOk, NOT_ON_PROCESS]
  · simp at hc
    simp [hc, isOk, PEER_NOT_FOUND]

theorem sv_tpInner_some (cfg : Cfg) (s : St) (p : Nat) (m : TMsg) (req : TReq)
    (h : slotT s p = some req) :
    ((tpInner cfg s p m).1 = s ∧ (tpInner cfg s p m).2 ≠ OK ∧
      (m.lsCode ≠ 201 → isOk (tpInner cfg s p m).2 = false)) ∨
    ((tpInner cfg s p m).2 = OK ∧ sv_Res s.ft req.hashes (tpInner cfg s p m).1.ft) := by
  have ⟨hc, hb⟩ := sv_slotT_some h
  unfold tpInner
  simp only [hc, hb]
  simp only [Bool.not_true, Bool.false_eq_true, if_false]
  split
  · split
    · split
      · rename_i hl
        refine .inl ⟨rfl, hl, ?_⟩
        intro h2
        simp [isOk, h2]
        exact hl
      · right
        refine ⟨rfl, ?_⟩
        intro k fi' hk
        rcases sv_markTimeout_some hk with ⟨_, h1⟩ | h1
        · exact .inl h1
        · exact .inr (.inr h1)
    · exact .inl ⟨rfl, sv_rej_mk _ _ _ (by decide) (by decide)⟩
  split
  · exact .inl ⟨rfl, sv_rej_mk _ _ _ (by decide) (by decide)⟩
  rename_i hch
  simp at hch
  have hch' := sv_checkHashes hch
  split
  · rename_i hemp
    split
    · exact .inl ⟨rfl, sv_rej_mk _ _ _ (by decide) (by decide)⟩
    · right
      refine ⟨rfl, ?_⟩
      intro k fi' hk
      rcases sv_markMissing_some hk with ⟨_, h1⟩ | ⟨h0, h1⟩
      · exact .inr (.inl h1)
      · refine .inr (.inr ⟨?_, h1⟩)
        intro hkr
        rcases hch' k hkr with h2 | h2
        · simp at hemp; simp [hemp] at h2
        · exact h0 h2
  split
  · exact .inl ⟨rfl, sv_rej_mk _ _ _ (by decide) (by decide)⟩
  split
  · exact .inl ⟨rfl, sv_rej_mk _ _ _ (by decide) (by decide)⟩
  split
  · exact .inl ⟨rfl, sv_rej_mk _ _ _ (by decide) (by decide)⟩
  split
  · exact .inl ⟨rfl, sv_rej_mk _ _ _ (by decide) (by decide)⟩
  split
  · exact .inl ⟨rfl, sv_rej_mk _ _ _ (by decide) (by decide)⟩
  right
  refine ⟨rfl, ?_⟩
  intro k fi' hk
  simp only at hk
  rcases sv_markMissing_some hk with ⟨_, h1⟩ | ⟨h0, h1⟩
  · exact .inr (.inl h1)
  · refine .inr (.inr ?_)
    rw [(sv_foldBlk cfg m.v1 m.blocks s).2.2.2.2 k] at h1
    split at h1
    · cases h1
    · rename_i hnr
      refine ⟨?_, h1⟩
      intro hkr
      rcases hch' k hkr with h2 | h2
      · exact hnr h2
      · exact h0 h2

theorem sv_clear_slotT (s s1 : St) (p q : Nat) (hc : s1.conn = s.conn) (hb : s1.treq = s.treq) :
    slotT { s1 with treq := if s1.conn p then upd s1.treq p none else s1.treq } q =
      if q = p then none else slotT s q := by
  unfold slotT
  simp only [hc, hb]
  by_cases hq : q = p
  · subst hq
    by_cases h : s.conn q = true <;> simp [h, upd]
  · by_cases h : s.conn p = true <;> simp [h, upd, hq]

theorem sv_clearT_T (s s1 : St) (p : Nat) (hc : s1.conn = s.conn) (hb : s1.treq = s.treq)
    (hft : match slotT s p with
      | none => s1.ft = s.ft
      | some req => sv_Res s.ft req.hashes s1.ft)
    (hs : ServedT s) :
    ServedT { s1 with treq := if s1.conn p then upd s1.treq p none else s1.treq } := by
  rw [sv_servedT_iff] at *
  cases hp : slotT s p with
  | none =>
    rw [hp] at hft
    apply sv_G_clear_none hs p (by simp [sv_hsT, hp])
    · intro q hq; simp [sv_hsT, sv_clear_slotT s s1 p q hc hb, hq]
    · exact hft
  | some req =>
    rw [hp] at hft
    apply sv_G_clear hs p req.hashes (by simp [sv_hsT, hp])
    · intro q hq; simp [sv_hsT, sv_clear_slotT s s1 p q hc hb, hq]
    · exact hft

theorem sv_onTxsProof (cfg : Cfg) (s : St) (p : Nat) (m : TMsg) (hs : Served s)
    (hx : (slotT s p ≠ none → (onTxsProof cfg s p m).2 = OK) ∨
      (cfg.markOnReject = true ∧ m.lsCode ≠ 201)) :
    Served (onTxsProof cfg s p m).1 := by
  have hx' : (slotT s p ≠ none → (tpInner cfg s p m).2 = OK) ∨
      (cfg.markOnReject = true ∧ m.lsCode ≠ 201) := hx
  clear hx
  unfold onTxsProof
  simp only
  have hfr := sv_tpInner_frame cfg s p m
  have hnone := sv_tpInner_none cfg s p m
  have hsome := sv_tpInner_some cfg s p m
  generalize tpInner cfg s p m = r at *
  have hmf := sv_markPeerT_frame r.1 p
  have hmft := sv_markPeerT_ft r.1 p
  rw [sv_slotT_congr hfr.1 hfr.2.2.1] at hmft
  generalize hs1 : (if (cfg.markOnReject && !isOk r.2) = true then markPeerT r.1 p else r.1) = s1
  have hfr1 : s1.conn = s.conn ∧ s1.breq = s.breq ∧ s1.treq = s.treq ∧ sv_sub s1.fh s.fh := by
    rw [← hs1]
    split
    · refine ⟨hmf.1.trans hfr.1, hmf.2.1.trans hfr.2.1, hmf.2.2.1.trans hfr.2.2.1, ?_⟩
      rw [hmf.2.2.2]; exact hfr.2.2.2
    · exact hfr
  constructor
  · apply sv_H_frame (s := s) hfr1.1 hfr1.2.1 _ hs.1
    intro k fi' hk
    change s1.fh k = some fi' at hk
    rcases hfr1.2.2.2 k with h | h
    · rw [h] at hk; cases hk
    · rw [h] at hk; exact .inr (.inr (.inr hk))
  · apply sv_clearT_T s s1 p hfr1.1 hfr1.2.2.1 _ hs.2
    cases hp : slotT s p with
    | none =>
      simp only
      have h1 := hnone hp
      rw [hp] at hmft
      rw [← hs1]
      split
      · rw [hmft, h1.1]
      · rw [h1.1]
    | some req =>
      simp only
      rw [hp] at hmft
      simp only at hmft
      rcases hsome req hp with ⟨h1, h2, h3⟩ | ⟨h1, h2⟩
      · rcases hx' with hx | ⟨hx1, hx2⟩
        · exact absurd (hx (by rw [hp]; simp)) h2
        · have h4 := h3 hx2
          rw [← hs1]
          simp only [hx1, h4, Bool.not_false, Bool.and_self, if_true]
          rw [hmft, h1]
          intro k fi' hk
          rcases sv_markTimeout_some hk with ⟨_, h5⟩ | h5
          · exact .inl h5
          · exact .inr (.inr h5)
      · have : isOk r.2 = true := by rw [h1]; decide
        rw [← hs1]
        simp only [this, Bool.not_true, Bool.and_false, Bool.false_eq_true, if_false]
        exact h2

/-! ### one step, histories -/

theorem sv_step {cfg : Cfg} {s s' : St} {e : Ev} {o : Out} (h : step cfg s e = .ok (s', o))
    (hs : Served s) (hf : FreshConnect s e)
    (hx : NoReject cfg s e ∨ (cfg.markOnReject = true ∧ LsCodeWf e)) : Served s' := by
  cases e with
  | connect p =>
    simp only [step] at h; cases h
    have hc := hf p rfl
    exact ⟨sv_connect_H s p hc hs.1, sv_connect_T s p hc hs.2⟩
  | disconnect p =>
    simp only [step] at h; cases h
    exact ⟨sv_disconnect_H s p hs.1, sv_disconnect_T s p hs.2⟩
  | fetchHeader k now =>
    simp only [step] at h; cases h
    exact sv_fetchHeader s k now hs
  | fetchTx t now pending =>
    simp only [step] at h
    split at h
    · rename_i r hr; cases h; exact sv_fetchTx hr hs
    · cases h
  | getTx t pending =>
    simp only [step] at h
    split at h
    · cases h; exact hs
    · cases h
  | getHeader k ip => simp only [step] at h; cases h; exact hs
  | fetchTick now tip best ch ct =>
    simp only [step] at h; cases h
    exact sv_fetchTick cfg s now tip best ch ct hs
  | refreshTick now cands sto =>
    simp only [step] at h; cases h
    rw [sv_refreshTick_eq]
    exact sv_foldMk_served _ s hs
  | blocksProof p m =>
    simp only [step] at h; cases h
    exact sv_onBlocksProof cfg s p m hs hx
  | txsProof p m =>
    simp only [step] at h; cases h
    exact sv_onTxsProof cfg s p m hs hx
  | block b record next =>
    simp only [step] at h
    split at h
    · rename_i r hr; cases h; exact sv_Fr_served (sv_onBlock_Fr hr) hs
    · cases h
  | reorg =>
    simp only [step] at h; cases h
    exact sv_Fr_served (s := s) ⟨rfl, rfl, rfl, rfl, rfl⟩ hs
  | envMatched l =>
    simp only [step] at h; cases h
    exact sv_Fr_served (s := s) ⟨rfl, rfl, rfl, rfl, rfl⟩ hs
  | envProveReq p tip now hashes =>
    simp only [step] at h
    split at h
    · rename_i hc
      cases h
      simp at hc
      exact sv_envProveReq s p _ hc.1 hc.2 hs
    · cases h; exact hs

theorem sv_run {cfg : Cfg} (P : St → Ev → Prop)
    (hP : ∀ s e, P s e → FreshConnect s e ∧ (NoReject cfg s e ∨ (cfg.markOnReject = true ∧ LsCodeWf e)))
    (evs : List Ev) (s s' : St) (os : List Out) (hs : Served s) (ha : Along cfg P s evs)
    (h : run cfg s evs = .ok (s', os)) : Served s' := by
  induction evs generalizing s os with
  | nil => simp only [run] at h; cases h; exact hs
  | cons e es ih =>
    simp only [run] at h
    simp only [Along] at ha
    split at h
    · cases h
    · rename_i s1 o hst
      rw [hst] at ha
      split at h
      · cases h
      · rename_i s2 os2 hr
        cases h
        have hp := hP s e ha.1
        exact ih s1 os2 (sv_step hst hs hp.1 hp.2) ha.2 hr

/-! ### sendable again, chunks -/

theorem sv_sendable_to (f : Nat → Option FetchInfo) (g : Nat → Option FetchInfo) (k : Nat)
    (h1 : g k = (f k).map sv_to) (h2 : (g k).isSome = true) : sendable g k = true := by
  unfold sendable
  rw [h1] at h2 ⊢
  cases hx : f k with
  | none => simp [hx] at h2
  | some fi => simp [sv_to]

theorem sv_chunkF_nil (n fuel : Nat) : chunkF n fuel [] = [] := by
  cases fuel <;> simp [chunkF]

theorem sv_chunk_single (n : Nat) (l : List Nat) (h1 : l ≠ []) (h2 : l.length ≤ max n 1) :
    chunk n l = [l] := by
  unfold chunk
  cases l with
  | nil => exact absurd rfl h1
  | cons a l =>
    simp only [List.length_cons, chunkF]
    rw [List.take_of_length_le h2, List.drop_of_length_le h2, sv_chunkF_nil]
    simp

end Proofs

import LcModel.Sync.Defs
/-! # Sync layer — lemmas for C08 / C09 -/
namespace Sync

/-! ## `minOf` -/

theorem minOf_eq_none {l : List Nat} : minOf l = none ↔ l = [] := by
  cases l with
  | nil => simp [minOf]
  | cons a as =>
    simp only [minOf]
    cases minOf as <;> simp

theorem minOf_le {l : List Nat} {m : Nat} (h : minOf l = some m) : ∀ x ∈ l, m ≤ x := by
  induction l generalizing m with
  | nil => simp [minOf] at h
  | cons a as ih =>
    intro x hx
    simp only [minOf] at h
    cases hm : minOf as with
    | none =>
      rw [hm] at h
      have has : as = [] := minOf_eq_none.1 hm
      subst has
      simp at h hx
      omega
    | some m' =>
      rw [hm] at h
      simp at h
      have h' := ih hm
      rcases List.mem_cons.1 hx with rfl | hx
      · omega
      · have := h' x hx; omega

theorem minOf_of_mem {l : List Nat} {x : Nat} (hx : x ∈ l) : ∃ m, minOf l = some m ∧ m ≤ x := by
  cases hm : minOf l with
  | none => rw [minOf_eq_none.1 hm] at hx; simp at hx
  | some m => exact ⟨m, rfl, minOf_le hm x hx⟩

/-! ## `upsert`, `lastGiven` -/

theorem mem_upsert {l : List (Nat × Nat)} {x e : Nat × Nat} (h : e ∈ upsert l x) :
    e = x ∨ (e ∈ l ∧ e.1 ≠ x.1) := by
  unfold upsert at h
  split at h
  · rcases List.mem_map.1 h with ⟨a, ha, rfl⟩
    by_cases hax : a.1 = x.1
    · simp [hax]
    · simp only [hax, if_false]; exact Or.inr ⟨ha, hax⟩
  · rename_i hany
    rcases List.mem_append.1 h with h | h
    · refine Or.inr ⟨h, ?_⟩
      intro he
      apply hany
      simp only [List.any_eq_true, decide_eq_true_eq]
      exact ⟨e, h, he⟩
    · simp at h; exact Or.inl h

theorem upsert_keys_nodup {l : List (Nat × Nat)} {x : Nat × Nat} (h : (l.map (·.1)).Nodup) :
    ((upsert l x).map (·.1)).Nodup := by
  unfold upsert
  split
  · have : (l.map (fun e => if e.1 = x.1 then x else e)).map (·.1) = l.map (·.1) := by
      rw [List.map_map]
      apply List.map_congr_left
      intro a _
      by_cases ha : a.1 = x.1 <;> simp [ha]
    rw [this]; exact h
  · rename_i hany
    rw [List.map_append]
    refine List.nodup_append.2 ⟨h, by simp, ?_⟩
    intro a ha b hb
    simp at hb
    subst hb
    rcases List.mem_map.1 ha with ⟨e, he, rfl⟩
    intro heq
    apply hany
    simp only [List.any_eq_true, decide_eq_true_eq]
    exact ⟨e, he, heq⟩

theorem foldl_upsert_keys_nodup (arg : List (Nat × Nat)) :
    ∀ base : List (Nat × Nat), (base.map (·.1)).Nodup → ((arg.foldl upsert base).map (·.1)).Nodup := by
  induction arg with
  | nil => intro base h; exact h
  | cons x rest ih => intro base h; exact ih _ (upsert_keys_nodup h)

theorem lastGiven_cons (s : Nat) (x : Nat × Nat) (rest : List (Nat × Nat)) :
    lastGiven s (x :: rest) =
      match lastGiven s rest with
      | some m => some m
      | none => if x.1 = s then some x.2 else none := by
  cases x; rfl

theorem lastGiven_mem {s n : Nat} {arg : List (Nat × Nat)} (h : lastGiven s arg = some n) :
    (s, n) ∈ arg := by
  induction arg with
  | nil => simp [lastGiven] at h
  | cons x rest ih =>
    rw [lastGiven_cons] at h
    cases hr : lastGiven s rest with
    | some m =>
      rw [hr] at h; simp at h; subst h
      exact List.mem_cons_of_mem _ (ih hr)
    | none =>
      rw [hr] at h
      by_cases hx : x.1 = s
      · simp [hx] at h
        have : x = (s, n) := by cases x; simp_all
        rw [this]; exact List.mem_cons_self
      · simp [hx] at h

theorem lastGiven_none {s : Nat} {arg : List (Nat × Nat)} (h : lastGiven s arg = none) :
    arg.any (·.1 = s) = false := by
  induction arg with
  | nil => rfl
  | cons x rest ih =>
    rw [lastGiven_cons] at h
    cases hr : lastGiven s rest with
    | some m => rw [hr] at h; simp at h
    | none =>
      rw [hr] at h
      by_cases hx : x.1 = s
      · simp [hx] at h
      · simp only [List.any_cons, ih hr, hx, decide_false, Bool.or_false]

/-- a member of the upserted list was either given (with its last number) or is an untouched
member of the base -/
theorem mem_foldl_upsert {e : Nat × Nat} (arg : List (Nat × Nat)) :
    ∀ base : List (Nat × Nat), e ∈ arg.foldl upsert base →
      lastGiven e.1 arg = some e.2 ∨ (lastGiven e.1 arg = none ∧ e ∈ base) := by
  induction arg with
  | nil => intro base h; exact Or.inr ⟨rfl, h⟩
  | cons x rest ih =>
    intro base h
    rw [lastGiven_cons]
    rcases ih _ h with h1 | ⟨h1, h2⟩
    · rw [h1]; exact Or.inl rfl
    · rw [h1]
      rcases mem_upsert h2 with rfl | ⟨h3, h4⟩
      · simp
      · have : ¬ x.1 = e.1 := fun h => h4 h.symm
        simp only [this, if_false]
        exact Or.inr ⟨trivial, h3⟩

/-! ## lookups (`find?` on the key) -/

theorem find_map_replace_ne {x : Nat × Nat} {s : Nat} (hxs : x.1 ≠ s) (l : List (Nat × Nat)) :
    (l.map (fun e => if e.1 = x.1 then x else e)).find? (·.1 = s) = l.find? (·.1 = s) := by
  induction l with
  | nil => rfl
  | cons a as ih =>
    simp only [List.map_cons, List.find?_cons, ih]
    by_cases ha : a.1 = x.1
    · have : ¬ a.1 = s := by rw [ha]; exact hxs
      simp [ha, hxs]
    · simp [ha]

theorem find_map_replace_eq {x : Nat × Nat} {s : Nat} (hxs : x.1 = s) (l : List (Nat × Nat))
    (hany : l.any (·.1 = x.1) = true) :
    (l.map (fun e => if e.1 = x.1 then x else e)).find? (·.1 = s) = some x := by
  induction l with
  | nil => simp at hany
  | cons a as ih =>
    simp only [List.map_cons, List.find?_cons]
    by_cases ha : a.1 = x.1
    · simp [ha, hxs]
    · have : ¬ a.1 = s := by rw [← hxs]; exact ha
      simp only [List.any_cons, ha, decide_false, Bool.false_or] at hany
      simp [ha, this, ih hany]

theorem lookup_upsert (l : List (Nat × Nat)) (x : Nat × Nat) (s : Nat) :
    ((upsert l x).find? (·.1 = s)).map (·.2) =
      if x.1 = s then some x.2 else (l.find? (·.1 = s)).map (·.2) := by
  unfold upsert
  split
  · rename_i hany
    by_cases hxs : x.1 = s
    · rw [find_map_replace_eq hxs l hany]; simp [hxs]
    · rw [find_map_replace_ne hxs l]; simp [hxs]
  · rename_i hany
    rw [List.find?_append]
    by_cases hxs : x.1 = s
    · have : l.find? (·.1 = s) = none := by
        rw [List.find?_eq_none]
        intro e he hes
        apply hany
        simp only [List.any_eq_true, decide_eq_true_eq] at hes ⊢
        exact ⟨e, he, by rw [hes, hxs]⟩
      simp [this, hxs]
    · simp [hxs]

theorem lookup_foldl_upsert (arg : List (Nat × Nat)) (s : Nat) :
    ∀ base : List (Nat × Nat),
      ((arg.foldl upsert base).find? (·.1 = s)).map (·.2) =
        (lastGiven s arg).orElse (fun _ => (base.find? (·.1 = s)).map (·.2)) := by
  induction arg with
  | nil => intro base; rfl
  | cons x rest ih =>
    intro base
    rw [List.foldl_cons, ih, lookup_upsert, lastGiven_cons]
    cases lastGiven s rest with
    | some m => rfl
    | none => by_cases hxs : x.1 = s <;> simp [hxs]

theorem lookup_filter_not_any (arg l : List (Nat × Nat)) (s : Nat) :
    ((l.filter (fun e => !arg.any (·.1 = e.1))).find? (·.1 = s)).map (·.2) =
      if arg.any (·.1 = s) then none else (l.find? (·.1 = s)).map (·.2) := by
  induction l with
  | nil => simp
  | cons a as ih =>
    by_cases ha : arg.any (·.1 = a.1) = true
    · rw [List.filter_cons_of_neg (by simp [ha]), ih]
      by_cases has : a.1 = s
      · rw [has] at ha; simp [ha]
      · simp [has]
    · have ha' : arg.any (·.1 = a.1) = false := Bool.eq_false_iff.2 ha
      rw [List.filter_cons_of_pos (by rw [ha']; rfl)]
      by_cases has : a.1 = s
      · rw [has] at ha'; simp [has, ha']
      · simp only [List.find?_cons, has, decide_false]; exact ih

/-! ## `insertRecord` -/

theorem mem_insertRecord {r x : Record} {l : List Record} (h : x ∈ insertRecord r l) :
    x = r ∨ x ∈ l := by
  induction l with
  | nil => simp [insertRecord] at h; exact Or.inl h
  | cons a as ih =>
    simp only [insertRecord] at h
    split at h
    · rcases List.mem_cons.1 h with h | h
      · exact Or.inl h
      · exact Or.inr h
    · split at h
      · rcases List.mem_cons.1 h with h | h
        · exact Or.inl h
        · exact Or.inr (List.mem_cons_of_mem _ h)
      · rcases List.mem_cons.1 h with h | h
        · exact Or.inr (h ▸ List.mem_cons_self)
        · rcases ih h with h | h
          · exact Or.inl h
          · exact Or.inr (List.mem_cons_of_mem _ h)

theorem self_mem_insertRecord (r : Record) (l : List Record) : r ∈ insertRecord r l := by
  induction l with
  | nil => simp [insertRecord]
  | cons a as ih =>
    simp only [insertRecord]
    split
    · exact List.mem_cons_self
    · split
      · exact List.mem_cons_self
      · exact List.mem_cons_of_mem _ ih

theorem mem_insertRecord_of_ne {r x : Record} {l : List Record} (h : x ∈ l)
    (hne : x.start ≠ r.start) : x ∈ insertRecord r l := by
  induction l with
  | nil => simp at h
  | cons a as ih =>
    simp only [insertRecord]
    split
    · exact List.mem_cons_of_mem _ h
    · split
      · rename_i heq
        rcases List.mem_cons.1 h with h | h
        · subst h; exact absurd heq.symm hne
        · exact List.mem_cons_of_mem _ h
      · rcases List.mem_cons.1 h with h | h
        · subst h; exact List.mem_cons_self
        · exact List.mem_cons_of_mem _ (ih h)

theorem pairwise_insertRecord (r : Record) {l : List Record}
    (h : l.Pairwise (fun a b => a.start < b.start)) :
    (insertRecord r l).Pairwise (fun a b => a.start < b.start) := by
  induction l with
  | nil => simp [insertRecord]
  | cons a as ih =>
    rw [List.pairwise_cons] at h
    simp only [insertRecord]
    split
    · rename_i hlt
      refine List.pairwise_cons.2 ⟨?_, List.pairwise_cons.2 h⟩
      intro y hy
      rcases List.mem_cons.1 hy with rfl | hy
      · exact hlt
      · exact Nat.lt_trans hlt (h.1 y hy)
    · split
      · rename_i heq
        refine List.pairwise_cons.2 ⟨?_, h.2⟩
        intro y hy
        rw [heq]; exact h.1 y hy
      · rename_i h1 h2
        refine List.pairwise_cons.2 ⟨?_, ih h.2⟩
        intro y hy
        rcases mem_insertRecord hy with rfl | hy
        · omega
        · exact h.1 y hy

/-! ## chains of writes: the property after every write -/

/-- `Q` holds after every write of the list (issued from `p`) -/
def Chain (Q : P → Prop) : P → List W → Prop
  | _, [] => True
  | p, w :: ws => Q (applyW p w) ∧ Chain Q (applyW p w) ws

theorem applyWs_nil (p : P) : applyWs p [] = p := rfl
theorem applyWs_cons (p : P) (w : W) (ws : List W) :
    applyWs p (w :: ws) = applyWs (applyW p w) ws := rfl
theorem applyWs_append (p : P) (ws vs : List W) :
    applyWs p (ws ++ vs) = applyWs (applyWs p ws) vs := by
  simp [applyWs, List.foldl_append]

theorem chain_take {Q : P → Prop} : ∀ (ws : List W) (p : P), Q p → Chain Q p ws →
    ∀ j, Q (applyWs p (ws.take j))
  | [], p, hq, _, j => by simpa [applyWs] using hq
  | _ :: _, p, hq, _, 0 => by simpa [applyWs] using hq
  | w :: ws, p, _, hc, j + 1 => by
    rw [List.take_succ_cons, applyWs_cons]
    exact chain_take ws (applyW p w) hc.1 hc.2 j

theorem chain_take_succ {Q : P → Prop} {p : P} {ws : List W} (h0 : ws = [] → Q p)
    (hc : Chain Q p ws) (j : Nat) : Q (applyWs p (ws.take (j + 1))) := by
  cases ws with
  | nil => simpa [applyWs] using h0 rfl
  | cons w ws =>
    rw [List.take_succ_cons, applyWs_cons]
    exact chain_take ws (applyW p w) hc.1 hc.2 j

theorem chain_last {Q : P → Prop} : ∀ (ws : List W) (p : P), Q p → Chain Q p ws →
    Q (applyWs p ws)
  | [], _, hq, _ => hq
  | w :: ws, p, _, hc => chain_last ws (applyW p w) hc.1 hc.2

theorem chain_append {Q : P → Prop} : ∀ (ws vs : List W) (p : P), Chain Q p ws →
    Chain Q (applyWs p ws) vs → Chain Q p (ws ++ vs)
  | [], _, _, _, h => h
  | w :: ws, _, p, h1, h2 => ⟨h1.1, chain_append ws _ (applyW p w) h1.2 h2⟩

theorem chain_of_forall {Q : P → Prop} : ∀ (ws : List W) (p : P),
    (∀ q, ∀ w ∈ ws, Q q → Q (applyW q w)) → Q p → Chain Q p ws
  | [], _, _, _ => trivial
  | w :: ws, p, h, hq =>
    ⟨h p w List.mem_cons_self hq,
     chain_of_forall ws (applyW p w) (fun q w' hw' => h q w' (List.mem_cons_of_mem _ hw'))
       (h p w List.mem_cons_self hq)⟩

/-! ## the invariant under single writes -/

section
variable {touches : Nat → Nat → Bool} {p : P} {lo : Nat → Nat}

theorem inv_filterBlock (hi : Inv touches ⟨p, lo⟩) (b : Nat) :
    Inv touches ⟨applyW p (.filterBlock b), lo⟩ := by
  obtain ⟨hk, hs, hc, hcm, hr⟩ := hi
  refine ⟨hk, ?_, ?_, hcm, hr⟩
  · intro e he b' ht h1 h2
    exact List.mem_append_left _ (hs e he b' ht h1 h2)
  · intro e he b' ht h0 h1 h2
    rcases hc e he b' ht h0 h1 h2 with h | h
    · exact Or.inl (List.mem_append_left _ h)
    · exact Or.inr h

theorem filterBlock_indexed (p : P) (b : Nat) :
    ∀ e ∈ p.scripts, (e.1, b) ∈ (applyW p (.filterBlock b)).indexed := by
  intro e he
  show (e.1, b) ∈ p.indexed ++ _
  by_cases h : (e.1, b) ∈ p.indexed
  · exact List.mem_append_left _ h
  · apply List.mem_append_right
    rw [List.mem_filter]
    refine ⟨List.mem_map.2 ⟨e, he, rfl⟩, ?_⟩
    simpa using h

/-- the store after indexing a list of blocks -/
theorem applyWs_filterBlocks (bs : List Nat) : ∀ p : P,
    (applyWs p (bs.map W.filterBlock)).scripts = p.scripts ∧
    (applyWs p (bs.map W.filterBlock)).minF = p.minF ∧
    (applyWs p (bs.map W.filterBlock)).records = p.records ∧
    (∀ x ∈ p.indexed, x ∈ (applyWs p (bs.map W.filterBlock)).indexed) ∧
    (∀ b ∈ bs, ∀ e ∈ p.scripts, (e.1, b) ∈ (applyWs p (bs.map W.filterBlock)).indexed) := by
  induction bs with
  | nil => intro p; exact ⟨rfl, rfl, rfl, fun _ h => h, by simp⟩
  | cons a as ih =>
    intro p
    rw [List.map_cons, applyWs_cons]
    obtain ⟨h1, h2, h3, h4, h5⟩ := ih (applyW p (.filterBlock a))
    refine ⟨h1, h2, h3, ?_, ?_⟩
    · intro x hx
      exact h4 x (List.mem_append_left _ hx)
    · intro b hb e he
      rcases List.mem_cons.1 hb with rfl | hb
      · exact h4 _ (filterBlock_indexed p b e he)
      · exact h5 b hb e he

theorem mem_updateBlockNumber {n : Nat} {e' : Nat × Nat}
    (h : e' ∈ (applyW p (.updateBlockNumber n)).scripts) :
    ∃ e ∈ p.scripts, e'.1 = e.1 ∧ e.2 ≤ e'.2 ∧ n ≤ e'.2 ∧ (e'.2 = e.2 ∨ (e'.2 = n ∧ e.2 < n)) := by
  rcases List.mem_map.1 h with ⟨e, he, rfl⟩
  refine ⟨e, he, ?_⟩
  by_cases hn : e.2 < n
  · rw [if_pos hn]; exact ⟨rfl, Nat.le_of_lt hn, Nat.le_refl _, Or.inr ⟨rfl, hn⟩⟩
  · rw [if_neg hn]; exact ⟨rfl, Nat.le_refl _, Nat.le_of_not_lt hn, Or.inl rfl⟩

theorem inv_updateBlockNumber (hi : Inv touches ⟨p, lo⟩) (n : Nat)
    (h : ∀ e ∈ p.scripts, ∀ b, touches e.1 b = true → lo e.1 < b → e.2 < b → b ≤ n →
      (e.1, b) ∈ p.indexed) :
    Inv touches ⟨applyW p (.updateBlockNumber n), lo⟩ := by
  obtain ⟨hk, hs, hc, hcm, hr⟩ := hi
  refine ⟨?_, ?_, ?_, ?_, hr⟩
  · have : ((applyW p (.updateBlockNumber n)).scripts.map (·.1)) = p.scripts.map (·.1) := by
      show (p.scripts.map _).map _ = _
      rw [List.map_map]
      apply List.map_congr_left
      intro a _
      by_cases ha : a.2 < n <;> simp [ha]
    show (((applyW p (.updateBlockNumber n)).scripts.map (·.1))).Nodup
    rw [this]; exact hk
  · intro e' he' b ht hlo hb
    obtain ⟨e, he, h1, h2, _, h4⟩ := mem_updateBlockNumber he'
    show (e'.1, b) ∈ p.indexed
    rw [h1] at ht ⊢
    have hlo' : lo e.1 < b := by have : lo e'.1 < b := hlo; rwa [h1] at this
    by_cases hbe : b ≤ e.2
    · exact hs e he b ht hlo' hbe
    · apply h e he b ht hlo' (by omega)
      rcases h4 with h4 | h4 <;> omega
  · intro e' he' b ht hlo hlt hb
    obtain ⟨e, he, h1, h2, _, _⟩ := mem_updateBlockNumber he'
    show (e'.1, b) ∈ p.indexed ∨ pending p b
    have hlo' : lo e.1 < b := by have : lo e'.1 < b := hlo; rwa [h1] at this
    rw [h1] at ht ⊢
    exact hc e he b ht hlo' (by omega) hb
  · intro r hr' e' he' b hb1 hb2 ht hlo hlt
    obtain ⟨e, he, h1, h2, _, _⟩ := mem_updateBlockNumber he'
    have hlo' : lo e.1 < b := by have : lo e'.1 < b := hlo; rwa [h1] at this
    rw [h1] at ht
    exact hcm r hr' e he b hb1 hb2 ht hlo' (by omega)

theorem inv_delRecord (hi : Inv touches ⟨p, lo⟩) (start : Nat)
    (h : ∀ e ∈ p.scripts, ∀ b, touches e.1 b = true → lo e.1 < b → e.2 < b → b ≤ p.minF →
      (e.1, b) ∈ p.indexed ∨ ∃ r ∈ p.records, r.start ≠ start ∧ b ∈ r.matched) :
    Inv touches ⟨applyW p (.delRecord start), lo⟩ := by
  obtain ⟨hk, hs, hc, hcm, hr1, hr2, hr3⟩ := hi
  have hmem : ∀ r, r ∈ (applyW p (.delRecord start)).records → r ∈ p.records := by
    intro r hr; exact (List.mem_filter.1 hr).1
  refine ⟨hk, hs, ?_, ?_, ?_, ?_, ?_⟩
  · intro e he b ht hlo hlt hb
    rcases h e he b ht hlo hlt hb with h | ⟨r, hr, hne, hbm⟩
    · exact Or.inl h
    · refine Or.inr ⟨r, ?_, hbm⟩
      show r ∈ p.records.filter _
      rw [List.mem_filter]
      exact ⟨hr, by simpa using hne⟩
  · intro r hr; exact hcm r (hmem r hr)
  · exact hr1.sublist List.filter_sublist
  · intro r hr; exact hr2 r (hmem r hr)
  · intro r hr; exact hr3 r (hmem r hr)

theorem inv_putMinF (hi : Inv touches ⟨p, lo⟩) (n : Nat)
    (h1 : ∀ r ∈ p.records, r.start ≤ n + 1)
    (h2 : ∀ e ∈ p.scripts, ∀ b, touches e.1 b = true → lo e.1 < b → e.2 < b → p.minF < b →
      b ≤ n → (e.1, b) ∈ p.indexed ∨ pending p b) :
    Inv touches ⟨applyW p (.putMinF n), lo⟩ := by
  obtain ⟨hk, hs, hc, hcm, hr1, hr2, hr3⟩ := hi
  refine ⟨hk, hs, ?_, hcm, hr1, hr2, h1⟩
  intro e he b ht hlo hlt hb
  by_cases hbm : b ≤ p.minF
  · exact hc e he b ht hlo hlt hbm
  · exact h2 e he b ht hlo hlt (by omega) hb

theorem inv_putRecord (hi : Inv touches ⟨p, lo⟩) (r : Record)
    (h1 : ∀ b ∈ r.matched, r.start ≤ b ∧ b < r.start + r.count)
    (h2 : r.start = p.minF + 1)
    (h3 : ∀ e ∈ p.scripts, ∀ b, r.start ≤ b → b < r.start + r.count → touches e.1 b = true →
      lo e.1 < b → e.2 < b → b ∈ r.matched) :
    Inv touches ⟨applyW p (.putRecord r), lo⟩ := by
  obtain ⟨hk, hs, hc, hcm, hr1, hr2, hr3⟩ := hi
  refine ⟨hk, hs, ?_, ?_, pairwise_insertRecord r hr1, ?_, ?_⟩
  · intro e he b ht hlo hlt hb
    rcases hc e he b ht hlo hlt hb with h | ⟨x, hx, hbx⟩
    · exact Or.inl h
    · refine Or.inr ⟨x, mem_insertRecord_of_ne hx ?_, hbx⟩
      intro heq
      have := (hr2 x hx b hbx).1
      have hb' : b ≤ p.minF := hb
      omega
  · intro x hx
    rcases mem_insertRecord hx with rfl | hx
    · exact h3
    · exact hcm x hx
  · intro x hx
    rcases mem_insertRecord hx with rfl | hx
    · exact h1
    · exact hr2 x hx
  · intro x hx
    rcases mem_insertRecord hx with rfl | hx
    · exact Nat.le_of_eq h2
    · exact hr3 x hx

theorem inv_setBatch {lo' : Nat → Nat} (S : List (Nat × Nat)) (M : Option Nat)
    (hk : (S.map (·.1)).Nodup)
    (hsafe : ∀ e ∈ S, ∀ b, touches e.1 b = true → lo' e.1 < b → b ≤ e.2 → (e.1, b) ∈ p.indexed)
    (hcover : ∀ e ∈ S, M.getD p.minF ≤ e.2) :
    Inv touches ⟨applyW p (.setBatch S M), lo'⟩ := by
  refine ⟨hk, hsafe, ?_, ?_, List.Pairwise.nil, ?_, ?_⟩
  · intro e he b _ _ hlt hb
    have := hcover e he
    have hb' : b ≤ M.getD p.minF := hb
    omega
  · intro r hr; cases hr
  · intro r hr; cases hr
  · intro r hr; cases hr

end

/-! ## the invariant after every write of an operation -/

section
variable {touches : Nat → Nat → Bool} {p : P} {lo : Nat → Nat}

theorem chain_genesis {lo' : Nat → Nat} {q : P} (cmd : Cmd) (arg : List (Nat × Nat))
    (hq : Inv touches ⟨q, lo'⟩) :
    Chain (fun q => Inv touches ⟨q, lo'⟩) q (genesisWrites cmd arg) := by
  apply chain_of_forall _ _ _ hq
  intro q' w hw hq'
  unfold genesisWrites at hw
  split at hw
  · simp at hw; subst hw; exact inv_filterBlock hq' 0
  · simp at hw

/-! ### `set_scripts` -/

theorem chain_set_all (arg : List (Nat × Nat)) :
    Chain (fun q => Inv touches ⟨q, loAfter lo (.set .all arg)⟩) p
      (setScriptsWrites p .all arg) := by
  have h1 : Inv touches ⟨applyW p (.setBatch (arg.foldl upsert []) (minOf (arg.map (·.2)))),
      loAfter lo (.set .all arg)⟩ := by
    apply inv_setBatch
    · exact foldl_upsert_keys_nodup arg [] (by simp)
    · intro e he b _ hlt hb
      rcases mem_foldl_upsert arg [] he with h | ⟨_, h⟩
      · have : (lastGiven e.1 arg).getD (lo e.1) < b := hlt
        rw [h] at this; simp at this; omega
      · cases h
    · intro e he
      rcases mem_foldl_upsert arg [] he with h | ⟨_, h⟩
      · have hm : e.2 ∈ arg.map (·.2) := List.mem_map.2 ⟨_, lastGiven_mem h, rfl⟩
        obtain ⟨m, hm1, hm2⟩ := minOf_of_mem hm
        rw [hm1]; exact hm2
      · cases h
  exact ⟨h1, chain_genesis _ _ h1⟩

/-- the number `set_scripts partial` rewinds the filter sync to -/
def partTarget (p : P) (arg : List (Nat × Nat)) : Nat :=
  let m := (minOf (arg.map (·.2))).getD 0
  let kept := p.scripts.filter (fun e => !arg.any (·.1 = e.1))
  if p.scripts.isEmpty then m else (minOf ([m] ++ kept.map (·.2) ++ [p.minF])).getD m

theorem setScriptsWrites_part_nil (p : P) : setScriptsWrites p .part [] = [] := rfl

theorem setScriptsWrites_part_cons (p : P) (x : Nat × Nat) (rest : List (Nat × Nat)) :
    setScriptsWrites p .part (x :: rest) =
      .setBatch ((x :: rest).foldl upsert p.scripts) (some (partTarget p (x :: rest))) ::
        genesisWrites .part (x :: rest) := rfl

theorem partTarget_le_given (p : P) (arg : List (Nat × Nat)) :
    ∀ n ∈ arg.map (·.2), partTarget p arg ≤ n := by
  intro n hn
  obtain ⟨m0, hm0, hm0n⟩ := minOf_of_mem hn
  unfold partTarget
  simp only [hm0, Option.getD_some]
  split
  · exact hm0n
  · have : m0 ∈ [m0] ++ (p.scripts.filter (fun e => !arg.any (·.1 = e.1))).map (·.2) ++ [p.minF] := by
      simp
    obtain ⟨t, ht, htm⟩ := minOf_of_mem this
    rw [ht]; exact Nat.le_trans htm hm0n

theorem partTarget_le_kept (p : P) (arg : List (Nat × Nat)) :
    ∀ e ∈ p.scripts, arg.any (·.1 = e.1) = false → partTarget p arg ≤ e.2 := by
  intro e he hany
  unfold partTarget
  have hne : p.scripts.isEmpty = false := by
    cases hs : p.scripts with
    | nil => rw [hs] at he; cases he
    | cons _ _ => rfl
  simp only [hne]
  have hk : e ∈ p.scripts.filter (fun e => !arg.any (·.1 = e.1)) := by
    rw [List.mem_filter]; exact ⟨he, by rw [hany]; rfl⟩
  have : e.2 ∈ [(minOf (arg.map (·.2))).getD 0] ++
      (p.scripts.filter (fun e => !arg.any (·.1 = e.1))).map (·.2) ++ [p.minF] := by
    apply List.mem_append_left
    apply List.mem_append_right
    exact List.mem_map.2 ⟨e, hk, rfl⟩
  obtain ⟨t, ht, hte⟩ := minOf_of_mem this
  simp only [Bool.false_eq_true, if_false]
  rw [ht]; exact hte

theorem inv_set_part_batch (hi : Inv touches ⟨p, lo⟩) (arg : List (Nat × Nat)) (target : Nat)
    (ht1 : ∀ n ∈ arg.map (·.2), target ≤ n)
    (ht2 : ∀ e ∈ p.scripts, arg.any (·.1 = e.1) = false → target ≤ e.2) :
    Inv touches ⟨applyW p (.setBatch (arg.foldl upsert p.scripts) (some target)),
      loAfter lo (.set .part arg)⟩ := by
  apply inv_setBatch
  · exact foldl_upsert_keys_nodup arg _ hi.keys
  · intro e he b ht hlt hb
    have hlt' : (lastGiven e.1 arg).getD (lo e.1) < b := hlt
    rcases mem_foldl_upsert arg _ he with h | ⟨h, he'⟩
    · rw [h] at hlt'; simp at hlt'; omega
    · rw [h] at hlt'
      exact hi.safe e he' b ht hlt' hb
  · intro e he
    show target ≤ e.2
    rcases mem_foldl_upsert arg _ he with h | ⟨h, he'⟩
    · exact ht1 _ (List.mem_map.2 ⟨_, lastGiven_mem h, rfl⟩)
    · exact ht2 e he' (lastGiven_none h)

theorem chain_set_part (hi : Inv touches ⟨p, lo⟩) (arg : List (Nat × Nat)) :
    Chain (fun q => Inv touches ⟨q, loAfter lo (.set .part arg)⟩) p
      (setScriptsWrites p .part arg) := by
  cases arg with
  | nil => trivial
  | cons x rest =>
    rw [setScriptsWrites_part_cons]
    have h1 := inv_set_part_batch hi (x :: rest) (partTarget p (x :: rest))
      (partTarget_le_given p _) (partTarget_le_kept p _)
    exact ⟨h1, chain_genesis _ _ h1⟩

theorem chain_set_del (hi : Inv touches ⟨p, lo⟩) (arg : List (Nat × Nat)) :
    Chain (fun q => Inv touches ⟨q, lo⟩) p (setScriptsWrites p .del arg) := by
  cases arg with
  | nil => trivial
  | cons x rest =>
    refine ⟨?_, trivial⟩
    apply inv_setBatch
    · exact hi.keys.sublist (List.Sublist.map _ List.filter_sublist)
    · intro e he; exact hi.safe e (List.mem_filter.1 he).1
    · intro e he
      have : e.2 ∈ (p.scripts.filter (fun e => !(x :: rest).any (·.1 = e.1))).map (·.2) :=
        List.mem_map.2 ⟨e, he, rfl⟩
      obtain ⟨m, hm, hme⟩ := minOf_of_mem this
      rw [hm]
      show min m p.minF ≤ e.2
      omega

/-! ### a batch of block filters -/

theorem chain_filters_put (hi : Inv touches ⟨p, lo⟩) {start k : Nat} {matched : List Nat}
    (hstart : p.minF + 1 = start)
    (ho1 : ∀ b ∈ matched, start ≤ b ∧ b < start + k)
    (ho2 : ∀ e ∈ p.scripts, ∀ b, start ≤ b → b < start + k → touches e.1 b = true → e.2 < b →
      b ∈ matched) :
    Chain (fun q => Inv touches ⟨q, lo⟩) p
      [.putRecord ⟨start, k, matched⟩, .putMinF (start + k - 1)] := by
  have h1 : Inv touches ⟨applyW p (.putRecord ⟨start, k, matched⟩), lo⟩ :=
    inv_putRecord hi _ ho1 hstart.symm (fun e he b h1 h2 ht _ hlt => ho2 e he b h1 h2 ht hlt)
  refine ⟨h1, inv_putMinF h1 _ ?_ ?_, trivial⟩
  · intro r hr
    have : r.start ≤ p.minF + 1 := h1.records.2.2 r hr
    omega
  · intro e he b ht _ hlt hb1 hb2
    have hb1' : p.minF < b := hb1
    exact Or.inr ⟨⟨start, k, matched⟩, self_mem_insertRecord _ _,
      ho2 e he b (by omega) (by omega) ht hlt⟩

theorem chain_filters_upd (hi : Inv touches ⟨p, lo⟩) {start k : Nat}
    (hstart : p.minF + 1 = start) (hrec : p.records = [])
    (ho2 : ∀ e ∈ p.scripts, ∀ b, start ≤ b → b < start + k → touches e.1 b = true → e.2 < b →
      b ∈ ([] : List Nat)) :
    Chain (fun q => Inv touches ⟨q, lo⟩) p
      [.updateBlockNumber (start + k - 1), .putMinF (start + k - 1)] := by
  have h1 : Inv touches ⟨applyW p (.updateBlockNumber (start + k - 1)), lo⟩ := by
    apply inv_updateBlockNumber hi
    intro e he b ht hlo hlt hb
    by_cases hbm : b ≤ p.minF
    · rcases hi.cover e he b ht hlo hlt hbm with h | ⟨r, hr, _⟩
      · exact h
      · have hr' : r ∈ p.records := hr
        rw [hrec] at hr'; cases hr'
    · have := ho2 e he b (by omega) (by omega) ht hlt
      cases this
  refine ⟨h1, inv_putMinF h1 _ ?_ ?_, trivial⟩
  · intro r hr
    have hr' : r ∈ p.records := hr
    rw [hrec] at hr'; cases hr'
  · intro e' he' b ht _ hlt hb1 hb2
    obtain ⟨e, he, _, _, h3, _⟩ := mem_updateBlockNumber he'
    omega

theorem chain_filters_min (hi : Inv touches ⟨p, lo⟩) {start k : Nat}
    (hstart : p.minF + 1 = start)
    (ho2 : ∀ e ∈ p.scripts, ∀ b, start ≤ b → b < start + k → touches e.1 b = true → e.2 < b →
      b ∈ ([] : List Nat)) :
    Chain (fun q => Inv touches ⟨q, lo⟩) p [.putMinF (start + k - 1)] := by
  refine ⟨inv_putMinF hi _ ?_ ?_, trivial⟩
  · intro r hr
    have : r.start ≤ p.minF + 1 := hi.records.2.2 r hr
    omega
  · intro e he b ht _ hlt hb1 hb2
    have := ho2 e he b (by omega) (by omega) ht hlt
    cases this

theorem chain_filters (hi : Inv touches ⟨p, lo⟩) {start k : Nat} {matched : List Nat} {ve : Bool}
    (ho : OpOk touches ⟨p, lo⟩ (.filters start k matched ve)) :
    Chain (fun q => Inv touches ⟨q, lo⟩) p (filtersWrites p start k matched ve) := by
  obtain ⟨ho1, ho2, ho3⟩ := ho
  unfold filtersWrites
  split
  · trivial
  split
  · split
    · rename_i hrec
      have hrec' : p.records = [] := List.isEmpty_iff.1 hrec
      refine ⟨inv_updateBlockNumber hi _ ?_, trivial⟩
      intro e he b ht hlo hlt hb
      rcases hi.cover e he b ht hlo hlt hb with h | ⟨r, hr, _⟩
      · exact h
      · have hr' : r ∈ p.records := hr
        rw [hrec'] at hr'; cases hr'
    · trivial
  split
  · trivial
  rename_i hs hstart hk
  have hstart' : p.minF + 1 = start := Decidable.not_not.1 hstart
  cases matched with
  | cons m ms =>
    exact chain_filters_put hi hstart' ho1 ho2
  | nil =>
    cases ve with
    | false => exact chain_filters_min hi hstart' ho2
    | true => exact chain_filters_upd hi hstart' (ho3 rfl) ho2

/-! ### completion of the earliest record -/

theorem chain_blocks_tail {p1 : P} {r : Record} {rest : List Record}
    (hi : Inv touches ⟨p, lo⟩) (hrec : p.records = r :: rest)
    (hi1 : Inv touches ⟨p1, lo⟩) (e1 : p1.scripts = p.scripts)
    (e3 : p1.records = p.records)
    (e4 : ∀ x ∈ p.indexed, x ∈ p1.indexed)
    (e5 : ∀ b ∈ r.matched, ∀ e ∈ p.scripts, (e.1, b) ∈ p1.indexed) :
    Chain (fun q => Inv touches ⟨q, lo⟩) p1
      [.updateBlockNumber (r.start + r.count - 1), .delRecord r.start] := by
  have hpw : p.records.Pairwise (fun a b => a.start < b.start) := hi.records.1
  have hrng : ∀ x ∈ p.records, ∀ b ∈ x.matched, x.start ≤ b ∧ b < x.start + x.count :=
    hi.records.2.1
  have hst : ∀ x ∈ p.records, x.start ≤ p.minF + 1 := hi.records.2.2
  rw [hrec] at hpw
  have hpw' : ∀ x ∈ rest, r.start < x.start := (List.pairwise_cons.1 hpw).1
  have hrmem : r ∈ p.records := by rw [hrec]; exact List.mem_cons_self
  have hrr := hrng r hrmem
  have h2 : Inv touches ⟨applyW p1 (.updateBlockNumber (r.start + r.count - 1)), lo⟩ := by
    apply inv_updateBlockNumber hi1
    intro e he b ht hlo hlt hb
    rw [e1] at he
    by_cases hrb : r.start ≤ b
    · exact e5 b (hi.complete r hrmem e he b hrb (by omega) ht hlo hlt) e he
    · have hst' : r.start ≤ p.minF + 1 := hst r hrmem
      rcases hi.cover e he b ht hlo hlt (show b ≤ p.minF by omega) with h | ⟨x, hx, hbx⟩
      · exact e4 _ h
      · exfalso
        have hx0 : x ∈ p.records := hx
        have h3 := (hrng x hx0 b hbx).1
        rw [hrec] at hx0
        rcases List.mem_cons.1 hx0 with hxr | hx'
        · rw [hxr] at h3; omega
        · have := hpw' x hx'; omega
  refine ⟨h2, inv_delRecord h2 _ ?_, trivial⟩
  intro e' he' b ht hlo hlt hb
  rcases h2.cover e' he' b ht hlo hlt hb with h | ⟨x, hx, hbx⟩
  · exact Or.inl h
  · have hx0 : x ∈ p1.records := hx
    rw [e3, hrec] at hx0
    refine Or.inr ⟨x, hx, ?_, hbx⟩
    intro heq
    obtain ⟨e, he, _, _, h3, _⟩ := mem_updateBlockNumber he'
    rcases List.mem_cons.1 hx0 with hxr | hx'
    · rw [hxr] at hbx
      have := (hrr b hbx).2
      omega
    · have := hpw' x hx'; omega

theorem chain_blocks (hi : Inv touches ⟨p, lo⟩) :
    Chain (fun q => Inv touches ⟨q, lo⟩) p (blocksWrites p) := by
  cases hrec : p.records with
  | nil => simp only [blocksWrites, hrec]; trivial
  | cons r rest =>
    have hw : blocksWrites p = r.matched.map W.filterBlock ++
        [.updateBlockNumber (r.start + r.count - 1), .delRecord r.start] := by
      simp only [blocksWrites, hrec]
    rw [hw]
    have hc : Chain (fun q => Inv touches ⟨q, lo⟩) p (r.matched.map W.filterBlock) := by
      apply chain_of_forall _ _ _ hi
      intro q w hw hq
      rcases List.mem_map.1 hw with ⟨b, _, rfl⟩
      exact inv_filterBlock hq b
    apply chain_append _ _ _ hc
    have hi1 : Inv touches ⟨applyWs p (r.matched.map W.filterBlock), lo⟩ :=
      chain_last (Q := fun q => Inv touches ⟨q, lo⟩) _ _ hi hc
    obtain ⟨e1, _, e3, e4, e5⟩ := applyWs_filterBlocks r.matched p
    exact chain_blocks_tail hi hrec hi1 e1 e3 e4 e5

end

/-! ## the step theorems -/

theorem stepG_lo_same (p : P) (lo : Nat → Nat) (op : Op) (j : Nat) (h : loAfter lo op = lo) :
    stepG ⟨p, lo⟩ op j = ⟨applyWs p ((opWrites p op).take j), lo⟩ := by
  simp [stepG, h]

/-- **the invariant holds after every prefix of the writes of every operation** -/
theorem inv_stepG (touches : Nat → Nat → Bool) (g : G) (op : Op) (j : Nat)
    (hi : Inv touches g) (ho : OpOk touches g op) : Inv touches (stepG g op j) := by
  obtain ⟨p, lo⟩ := g
  cases op with
  | set cmd arg =>
    cases cmd with
    | all =>
      cases j with
      | zero => exact hi
      | succ j =>
        exact chain_take_succ (Q := fun q => Inv touches ⟨q, loAfter lo (.set .all arg)⟩)
          (fun h => by simp [setScriptsWrites] at h) (chain_set_all arg) j
    | part =>
      cases j with
      | zero => exact hi
      | succ j =>
        refine chain_take_succ (Q := fun q => Inv touches ⟨q, loAfter lo (.set .part arg)⟩)
          ?_ (chain_set_part hi arg) j
        intro h
        cases arg with
        | nil => exact hi
        | cons x rest => rw [setScriptsWrites_part_cons] at h; cases h
    | del =>
      rw [stepG_lo_same _ _ _ _ rfl]
      exact chain_take (Q := fun q => Inv touches ⟨q, lo⟩) _ _ hi (chain_set_del hi arg) j
  | filters start k matched ve =>
    rw [stepG_lo_same _ _ _ _ rfl]
    exact chain_take (Q := fun q => Inv touches ⟨q, lo⟩) _ _ hi (chain_filters hi ho) j
  | blocks =>
    rw [stepG_lo_same _ _ _ _ rfl]
    exact chain_take (Q := fun q => Inv touches ⟨q, lo⟩) _ _ hi (chain_blocks hi) j

theorem inv_stepFull (touches : Nat → Nat → Bool) (g : G) (op : Op)
    (hi : Inv touches g) (ho : OpOk touches g op) : Inv touches (stepFull g op) :=
  inv_stepG touches g op _ hi ho

theorem inv_runG (touches : Nat → Nat → Bool) : ∀ (h : List (Op × Option Nat)) (g : G),
    Inv touches g → HistOk touches g h → Inv touches (runG touches g h)
  | [], _, hi, _ => hi
  | (op, some j) :: rest, g, hi, ho =>
    inv_runG touches rest (stepG g op j) (inv_stepG touches g op j hi ho.1) ho.2
  | (op, none) :: rest, g, hi, ho =>
    inv_runG touches rest (stepFull g op) (inv_stepFull touches g op hi ho.1) ho.2

/-- from the invariant: with no record pending every touching block up to `minF` is indexed -/
theorem indexed_of_done {touches : Nat → Nat → Bool} {g : G} (hi : Inv touches g)
    (hdone : g.p.records = []) {s n b : Nat} (hs : (s, n) ∈ g.p.scripts)
    (ht : touches s b = true) (hlo : g.lo s < b) (hb : b ≤ g.p.minF) : (s, b) ∈ g.p.indexed := by
  by_cases hbn : b ≤ n
  · exact hi.safe (s, n) hs b ht hlo hbn
  · rcases hi.cover (s, n) hs b ht hlo (by show n < b; omega) hb with h | ⟨r, hr, _⟩
    · exact h
    · rw [hdone] at hr; cases hr

/-! ## the store after a completed `set_scripts` -/

theorem genesis_scripts (q : P) (cmd : Cmd) (arg : List (Nat × Nat)) :
    (applyWs q (genesisWrites cmd arg)).scripts = q.scripts := by
  unfold genesisWrites; split <;> rfl

theorem genesis_records (q : P) (cmd : Cmd) (arg : List (Nat × Nat)) :
    (applyWs q (genesisWrites cmd arg)).records = q.records := by
  unfold genesisWrites; split <;> rfl

theorem scripts_after_set_all (p : P) (arg : List (Nat × Nat)) :
    (applyWs p (setScriptsWrites p .all arg)).scripts = arg.foldl upsert [] :=
  genesis_scripts _ _ _

theorem scripts_after_set_part (p : P) (arg : List (Nat × Nat)) :
    (applyWs p (setScriptsWrites p .part arg)).scripts = arg.foldl upsert p.scripts := by
  cases arg with
  | nil => rfl
  | cons x rest => rw [setScriptsWrites_part_cons]; exact genesis_scripts _ _ _

theorem scripts_after_set_del_nil (p : P) :
    (applyWs p (setScriptsWrites p .del [])).scripts = p.scripts := rfl

theorem scripts_after_set_del_cons (p : P) (x : Nat × Nat) (rest : List (Nat × Nat)) :
    (applyWs p (setScriptsWrites p .del (x :: rest))).scripts =
      p.scripts.filter (fun e => !(x :: rest).any (·.1 = e.1)) := rfl

theorem records_after_set (p : P) (cmd : Cmd) (arg : List (Nat × Nat))
    (h : setScriptsWrites p cmd arg ≠ []) :
    (applyWs p (setScriptsWrites p cmd arg)).records = [] := by
  cases cmd with
  | all => exact genesis_records _ _ _
  | part =>
    cases arg with
    | nil => exact absurd rfl h
    | cons x rest => rw [setScriptsWrites_part_cons]; exact genesis_records _ _ _
  | del =>
    cases arg with
    | nil => exact absurd rfl h
    | cons x rest => rfl

theorem keys_after_set (p : P) (cmd : Cmd) (arg : List (Nat × Nat))
    (hk : (p.scripts.map (·.1)).Nodup) :
    ((applyWs p (setScriptsWrites p cmd arg)).scripts.map (·.1)).Nodup := by
  cases cmd with
  | all => rw [scripts_after_set_all]; exact foldl_upsert_keys_nodup arg [] (by simp)
  | part => rw [scripts_after_set_part]; exact foldl_upsert_keys_nodup arg _ hk
  | del =>
    cases arg with
    | nil => exact hk
    | cons x rest =>
      rw [scripts_after_set_del_cons]
      exact hk.sublist (List.Sublist.map _ List.filter_sublist)

/-! ## concrete states of the examples -/

/-- script 1 (registered from 0, number 0) waits for block 5 in a record -/
theorem inv_example_pending :
    Inv (fun s b => s == 1 && b == 5) ⟨⟨[(1, 0)], 10, [⟨1, 10, [5]⟩], []⟩, fun _ => 0⟩ := by
  refine ⟨by decide, ?_, ?_, ?_, ?_, ?_, ?_⟩
  · intro e he b ht hlo hb; simp at he; subst he; simp at hb hlo; omega
  · intro e he b ht _ hlt hb
    simp at he; subst he; simp at ht; subst ht
    exact Or.inr ⟨⟨1, 10, [5]⟩, by simp, by simp⟩
  · intro r hr e he b h1 h2 ht _ hlt
    simp at hr he; subst hr he; simp at ht; subst ht; simp
  · simp
  · intro r hr b hb; simp at hr; subst hr; simp at hb; subst hb; simp
  · intro r hr; simp at hr; subst hr; simp

/-- script 1 at the filtered number, nothing pending, a block of another script below it -/
theorem inv_example_idle :
    Inv (fun s b => s == 2 && b == 5) ⟨⟨[(1, 10)], 10, [], []⟩, fun _ => 0⟩ := by
  refine ⟨by decide, ?_, ?_, ?_, ?_, ?_, ?_⟩
  · intro e he b ht hlo hb; simp at he; subst he; simp at ht
  · intro e he b ht _ hlt hb; simp at he; subst he; simp at ht
  · intro r hr; cases hr
  · simp
  · intro r hr; cases hr
  · intro r hr; cases hr

end Sync

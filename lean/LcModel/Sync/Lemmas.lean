import LcModel.Sync.Defs
/-! # Sync layer — lemmas for C08 / C09 -/
namespace Sync

end Sync

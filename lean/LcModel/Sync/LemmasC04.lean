import LcModel.Sync.Lemmas
/-! # Sync layer — lemmas for C04 -/
namespace Sync

/-- deleting records one by one touches only the record list -/
theorem applyWs_delRecords (l : List Record) (p : P) :
    applyWs p (l.map (fun r => W.delRecord r.start)) =
      { p with records := p.records.filter (fun r => !(l.any (fun x => x.start = r.start))) } := by
  induction l generalizing p with
  | nil =>
    cases p
    simp only [applyWs, List.map_nil, List.foldl_nil, List.any_nil, Bool.not_false]
    congr 1
    exact (List.filter_eq_self.mpr (fun _ _ => rfl)).symm
  | cons a l ih =>
    have ih' := ih (applyW p (.delRecord a.start))
    unfold applyWs at ih' ⊢
    rw [List.map_cons, List.foldl_cons, ih']
    simp only [applyW, List.filter_filter, List.any_cons]
    congr 1
    apply List.filter_congr
    intro r _
    by_cases h : a.start = r.start
    · simp [h]
    · have h' : ¬ r.start = a.start := fun e => h e.symm
      simp [h, h']

theorem forkRb_le (p : P) (f : Nat) : forkRb p f ≤ f + 1 := by
  unfold forkRb
  cases h : (p.records.filter (fun r => r.start ≤ f)).getLast? with
  | none => simp
  | some r =>
    have hm := List.mem_of_getLast? h
    have := (List.mem_filter.mp hm).2
    simp only [decide_eq_true_eq] at this
    simp only
    omega

theorem forkRb_pos (p : P) (f : Nat) : 1 ≤ forkRb p f := by
  unfold forkRb
  omega

/-- the store after the fork handling, field by field -/
theorem applyWs_forkWrites (p : P) (f : Nat) :
    applyWs p (forkWrites p f) =
      applyW { p with records := p.records.filter (fun r => r.start ≤ f) } (.rollback (forkRb p f) (forkRb p f - 1)) := by
  rfl

/-- the fork handling before the repair (record deletions one by one, then the rollback batch)
ended in the same store -/
theorem applyWs_oldForkWrites (p : P) (f : Nat) :
    applyWs p (oldForkWrites p f) =
      applyW { p with records := p.records.filter (fun r => r.start ≤ f) } (.rollback (forkRb p f) (forkRb p f - 1)) := by
  unfold oldForkWrites
  simp only
  unfold applyWs
  rw [List.foldl_append]
  have h := applyWs_delRecords (p.records.filter (fun r => f < r.start)).reverse p
  unfold applyWs at h
  rw [h]
  simp only [List.foldl_cons, List.foldl_nil]
  have hf : p.records.filter (fun r =>
        !((p.records.filter (fun r => f < r.start)).reverse.any (fun x => x.start = r.start))) =
      p.records.filter (fun r => r.start ≤ f) := by
    apply List.filter_congr
    intro r hr
    by_cases hle : r.start ≤ f
    · have : ∀ x ∈ p.records, f < x.start → ¬ x.start = r.start := by
        intro x _ hx e
        omega
      simp only [hle, decide_true, Bool.not_eq_true', List.any_eq_false, List.mem_reverse,
        List.mem_filter, decide_eq_true_eq, and_imp]
      exact this
    · simp only [hle, decide_false, Bool.not_eq_false', List.any_eq_true, List.mem_reverse,
        List.mem_filter, decide_eq_true_eq]
      exact ⟨r, ⟨hr, by omega⟩, rfl⟩
  rw [hf]

end Sync

import LcModel.Sync.LemmasC04
/-!
# Sync layer — the fork rollback and the C08 / C09 invariant

`commit_prove_state` handles a reorganisation with fork point `f` by `forkWrites`: the
matched-blocks records that start above `f` are deleted one by one, then ONE batch
(`rollback_to_block_with_filtered_number`) removes the index entries from the rollback point `rb`
on, sets the rolled-back scripts to `rb - 1` and the min filtered number to `rb - 1`.  The chain
changes with the fork: `touches'` (the new chain) agrees with `touches` (the old one) up to `f`.

* `inv_fork` — the completed fork handling takes the invariant of the old chain to the invariant
  of the NEW chain: nothing at or below the fork point is forgotten, nothing above it is claimed.
* `refork_after_crash` — a crash anywhere inside the fork handling (the stored tip is written
  after it, so the fork is detected again) followed by the same fork handling gives exactly the
  store of the uninterrupted one; `refork_idempotent` — so does running it twice.
* `fork_prefix_below` — the states in between keep the invariant restricted to the blocks at or
  below the fork point (`InvBelow`), which is all the two chains share.
-/
namespace Sync

/-- the chains agree up to the fork point -/
def Agree (f : Nat) (t t' : Nat → Nat → Bool) : Prop := ∀ s b, b ≤ f → t' s b = t s b

/-- no retained record reaches beyond the fork point (otherwise: the known finding
`fork_retains_abandoned_blocks`) -/
def NoSpan (p : P) (f : Nat) : Prop := ∀ r ∈ p.records, r.start ≤ f → r.start + r.count ≤ f + 1

/-- no script claims (above its registration number) a block of a retained record at or above the
rollback point.  Holds whenever records are put with `minF` in step (`r.start = minF + 1` and the
scripts at or below `minF`, or registered ahead with that very number); it can fail only after a
crash between the write of a record and the write of the min filtered number, followed by the
completion of that record and a shorter batch over the same blocks — there the rewound `minF`
makes the client filter those blocks again, but `safe` is false in between. -/
def NoClaimInRetained (p : P) (lo : Nat → Nat) (f : Nat) : Prop :=
  ∀ r ∈ p.records, r.start ≤ f → ∀ e ∈ p.scripts, ∀ b, r.start ≤ b → b < r.start + r.count →
    forkRb p f ≤ b → b ≤ e.2 → lo e.1 < b → False

/-- the store after the fork handling -/
def forked (p : P) (f : Nat) : P :=
  applyW { p with records := p.records.filter (fun r => r.start ≤ f) }
    (.rollback (forkRb p f) (forkRb p f - 1))

theorem forked_eq (p : P) (f : Nat) : applyWs p (forkWrites p f) = forked p f :=
  applyWs_forkWrites p f

theorem forked_scripts (p : P) (f : Nat) :
    (forked p f).scripts =
      p.scripts.map (fun s => if forkRb p f ≤ s.2 then (s.1, forkRb p f - 1) else s) := rfl

theorem forked_records (p : P) (f : Nat) :
    (forked p f).records = p.records.filter (fun r => r.start ≤ f) := rfl

theorem forked_minF (p : P) (f : Nat) :
    (forked p f).minF = if forkRb p f ≤ p.minF then forkRb p f - 1 else p.minF := rfl

theorem forked_indexed (p : P) (f : Nat) :
    (forked p f).indexed = p.indexed.filter (fun e =>
      !(e.2 ≥ forkRb p f && p.scripts.any (fun s => s.1 = e.1 && forkRb p f ≤ s.2))) := rfl

theorem mem_forked_scripts {p : P} {f : Nat} {e' : Nat × Nat} (h : e' ∈ (forked p f).scripts) :
    ∃ e ∈ p.scripts, e'.1 = e.1 ∧
      ((forkRb p f ≤ e.2 ∧ e'.2 = forkRb p f - 1) ∨ (e.2 < forkRb p f ∧ e'.2 = e.2)) := by
  rw [forked_scripts] at h
  obtain ⟨e, he, rfl⟩ := List.mem_map.mp h
  refine ⟨e, he, ?_⟩
  by_cases hc : forkRb p f ≤ e.2
  · rw [if_pos hc]; exact ⟨rfl, Or.inl ⟨hc, rfl⟩⟩
  · rw [if_neg hc]; exact ⟨rfl, Or.inr ⟨by omega, rfl⟩⟩

theorem forked_indexed_below {p : P} {f : Nat} {x : Nat × Nat} (hx : x ∈ p.indexed)
    (hb : x.2 < forkRb p f) : x ∈ (forked p f).indexed := by
  rw [forked_indexed, List.mem_filter]
  refine ⟨hx, ?_⟩
  have : decide (x.2 ≥ forkRb p f) = false := by simp; omega
  simp [this]

theorem forked_minF_le (p : P) (f : Nat) :
    (forked p f).minF ≤ forkRb p f - 1 ∧ (forked p f).minF ≤ p.minF := by
  rw [forked_minF]
  have := forkRb_pos p f
  split <;> omega

theorem pairwise_le_getLast {l : List Record} (hpw : l.Pairwise (fun a b => a.start < b.start))
    {x : Record} (hl : l.getLast? = some x) : ∀ r ∈ l, r.start ≤ x.start := by
  induction l with
  | nil => intro r hr; cases hr
  | cons a as ih =>
    intro r hr
    cases as with
    | nil =>
      simp at hl hr; subst hl hr; exact Nat.le_refl _
    | cons b bs =>
      have hl' : (b :: bs).getLast? = some x := by simpa [List.getLast?_cons_cons] using hl
      obtain ⟨h1, h2⟩ := List.pairwise_cons.mp hpw
      rcases List.mem_cons.mp hr with rfl | hr
      · have hx : x ∈ b :: bs := List.mem_of_getLast? hl'
        exact Nat.le_of_lt (h1 x hx)
      · exact ih h2 hl' r hr

/-- **the fork handling takes the invariant of the old chain to the invariant of the new one** -/
theorem inv_fork {touches touches' : Nat → Nat → Bool} {p : P} {lo : Nat → Nat} {f : Nat}
    (hi : Inv touches ⟨p, lo⟩) (hns : NoSpan p f) (hnc : NoClaimInRetained p lo f)
    (hag : Agree f touches touches') :
    Inv touches' ⟨applyWs p (forkWrites p f), lo⟩ := by
  rw [forked_eq]
  have hle := forkRb_le p f
  have hpos := forkRb_pos p f
  obtain ⟨hk, hs, hc, hcm, hr1, hr2, hr3⟩ := hi
  have hkept : ∀ r, r ∈ (forked p f).records → r ∈ p.records ∧ r.start ≤ f := by
    intro r hr
    rw [forked_records] at hr
    obtain ⟨h1, h2⟩ := List.mem_filter.mp hr
    exact ⟨h1, by simpa using h2⟩
  refine ⟨?_, ?_, ?_, ?_, ?_, ?_, ?_⟩
  · -- keys
    show ((forked p f).scripts.map (·.1)).Nodup
    have : (forked p f).scripts.map (·.1) = p.scripts.map (·.1) := by
      rw [forked_scripts, List.map_map]
      apply List.map_congr_left
      intro a _
      by_cases ha : forkRb p f ≤ a.2 <;> simp [ha]
    rw [this]; exact hk
  · -- safe
    intro e' he' b ht' hlo hb
    obtain ⟨e, he, h1, h2⟩ := mem_forked_scripts he'
    have hb' : b ≤ e'.2 := hb
    have hbr : b < forkRb p f := by rcases h2 with ⟨_, h⟩ | ⟨_, h⟩ <;> omega
    have hbe : b ≤ e.2 := by rcases h2 with ⟨_, h⟩ | ⟨_, h⟩ <;> omega
    have ht : touches e.1 b = true := by
      have := hag e'.1 b (by omega); rw [h1] at this; rw [← this]; rw [← h1]; exact ht'
    have hlo' : lo e.1 < b := by have : lo e'.1 < b := hlo; rwa [h1] at this
    show (e'.1, b) ∈ (forked p f).indexed
    rw [h1]
    exact forked_indexed_below (hs e he b ht hlo' hbe) hbr
  · -- cover
    intro e' he' b ht' hlo hlt hb
    obtain ⟨e, he, h1, h2⟩ := mem_forked_scripts he'
    have hb' : b ≤ (forked p f).minF := hb
    have hlt' : e'.2 < b := hlt
    obtain ⟨hm1, hm2⟩ := forked_minF_le p f
    have hbr : b < forkRb p f := by omega
    rcases h2 with ⟨_, h⟩ | ⟨_, h⟩
    · omega
    · have ht : touches e.1 b = true := by
        have := hag e'.1 b (by omega); rw [h1] at this; rw [← this]; rw [← h1]; exact ht'
      have hlo' : lo e.1 < b := by have : lo e'.1 < b := hlo; rwa [h1] at this
      show (e'.1, b) ∈ (forked p f).indexed ∨ pending (forked p f) b
      rw [h1]
      rcases hc e he b ht hlo' (by omega) (by show b ≤ p.minF; omega) with hx | ⟨r, hr, hbm⟩
      · exact Or.inl (forked_indexed_below hx hbr)
      · refine Or.inr ⟨r, ?_, hbm⟩
        rw [forked_records, List.mem_filter]
        have := (hr2 r hr b hbm).1
        exact ⟨hr, by simp; omega⟩
  · -- complete
    intro r hr e' he' b hb1 hb2 ht' hlo hlt
    obtain ⟨hrp, hrf⟩ := hkept r hr
    obtain ⟨e, he, h1, h2⟩ := mem_forked_scripts he'
    have hspan := hns r hrp hrf
    have ht : touches e.1 b = true := by
      have := hag e'.1 b (by omega); rw [h1] at this; rw [← this]; rw [← h1]; exact ht'
    have hlo' : lo e.1 < b := by have : lo e'.1 < b := hlo; rwa [h1] at this
    have hlt' : e'.2 < b := hlt
    rcases h2 with ⟨hge, h⟩ | ⟨_, h⟩
    · by_cases hbe : e.2 < b
      · exact hcm r hrp e he b hb1 hb2 ht hlo' hbe
      · exact absurd (hnc r hrp hrf e he b hb1 hb2 (by omega) (by omega) hlo') id
    · exact hcm r hrp e he b hb1 hb2 ht hlo' (by omega)
  · exact hr1.sublist List.filter_sublist
  · intro r hr; exact hr2 r (hkept r hr).1
  · -- r.start ≤ minF' + 1
    intro r hr
    obtain ⟨hrp, hrf⟩ := hkept r hr
    show r.start ≤ (forked p f).minF + 1
    rw [forked_minF]
    have h3 := hr3 r hrp
    -- every retained record starts at or below the last retained one, i.e. below `rb`
    have hlast : r.start + 1 ≤ forkRb p f := by
      unfold forkRb
      have hmem : r ∈ p.records.filter (fun r => r.start ≤ f) := by
        rw [List.mem_filter]; exact ⟨hrp, by simpa using hrf⟩
      have hpw : (p.records.filter (fun r => r.start ≤ f)).Pairwise (fun a b => a.start < b.start) :=
        hr1.sublist List.filter_sublist
      cases hl : (p.records.filter (fun r => r.start ≤ f)).getLast? with
      | none =>
        rw [List.getLast?_eq_none_iff] at hl
        rw [hl] at hmem; cases hmem
      | some l =>
        simp only
        have := pairwise_le_getLast hpw hl r hmem
        omega
    split <;> omega

/-! ## crashes inside the fork handling -/

/-- the record deletions of the fork handling -/
def forkDels (p : P) (f : Nat) : List W :=
  (p.records.filter (fun r => f < r.start)).reverse.map (fun r => W.delRecord r.start)

theorem oldForkWrites_eq (p : P) (f : Nat) :
    oldForkWrites p f = forkDels p f ++ [.rollback (forkRb p f) (forkRb p f - 1)] := rfl

theorem forkWrites_take_succ (p : P) (f j : Nat) :
    (forkWrites p f).take (j + 1) = forkWrites p f := by
  unfold forkWrites; simp

theorem forkWrites_take_zero (p : P) (f : Nat) : applyWs p ((forkWrites p f).take 0) = p := by
  simp [applyWs]

/-- **the fork handling is one write**: whatever it dies in front of, the store is the one before
it or the one after it -/
theorem fork_atomic (p : P) (f j : Nat) :
    applyWs p ((forkWrites p f).take j) = p ∨
      applyWs p ((forkWrites p f).take j) = applyWs p (forkWrites p f) := by
  match j with
  | 0 => left; exact forkWrites_take_zero p f
  | j + 1 => right; rw [forkWrites_take_succ]

/-- the part of a chain at or below block `f` -/
def below (f : Nat) (t : Nat → Nat → Bool) : Nat → Nat → Bool := fun s b => t s b && decide (b ≤ f)

/-- the invariant for fewer touching blocks is weaker -/
theorem inv_mono {t t' : Nat → Nat → Bool} {g : G} (h : ∀ s b, t' s b = true → t s b = true)
    (hi : Inv t g) : Inv t' g :=
  ⟨hi.keys, fun e he b ht => hi.safe e he b (h _ _ ht), fun e he b ht => hi.cover e he b (h _ _ ht),
   fun r hr e he b h1 h2 ht => hi.complete r hr e he b h1 h2 (h _ _ ht), hi.records⟩

theorem below_sub (f : Nat) (t : Nat → Nat → Bool) : ∀ s b, below f t s b = true → t s b = true := by
  intro s b h
  unfold below at h
  simp only [Bool.and_eq_true] at h
  exact h.1

/-- deleting the records above the fork point keeps the invariant for the blocks the two chains
share -/
theorem chain_forkDels {touches : Nat → Nat → Bool} {p : P} {lo : Nat → Nat} (f : Nat)
    (hi : Inv (below f touches) ⟨p, lo⟩) :
    Chain (fun q => Inv (below f touches) ⟨q, lo⟩) p (forkDels p f) := by
  apply chain_of_forall _ _ _ hi
  intro q w hw hq
  unfold forkDels at hw
  obtain ⟨r0, hr0, rfl⟩ := List.mem_map.mp hw
  have hst : f < r0.start := by
    have := (List.mem_filter.mp (List.mem_reverse.mp hr0)).2
    simpa using this
  apply inv_delRecord hq
  intro e he b ht hlo hlt hb
  have hbf : b ≤ f := by
    unfold below at ht
    simp only [Bool.and_eq_true, decide_eq_true_eq] at ht
    exact ht.2
  rcases hq.cover e he b ht hlo hlt hb with h | ⟨r, hr, hbm⟩
  · exact Or.inl h
  · refine Or.inr ⟨r, hr, ?_, hbm⟩
    have := (hq.records.2.1 r hr b hbm).1
    omega

/-- the fork handling BEFORE the repair (record deletions as writes of their own): a crash
anywhere inside it left a store that satisfied the invariant only for the blocks at or below the
fork point — all the old and the new chain have in common -/
theorem old_fork_prefix_below {touches : Nat → Nat → Bool} {p : P} {lo : Nat → Nat} {f : Nat}
    (hi : Inv touches ⟨p, lo⟩) (hns : NoSpan p f) (hnc : NoClaimInRetained p lo f) (j : Nat) :
    Inv (below f touches) ⟨applyWs p ((oldForkWrites p f).take j), lo⟩ := by
  by_cases hj : j ≤ (forkDels p f).length
  · rw [oldForkWrites_eq, List.take_append_of_le_length hj]
    exact chain_take (Q := fun q => Inv (below f touches) ⟨q, lo⟩) _ _
      (inv_mono (below_sub f touches) hi) (chain_forkDels f (inv_mono (below_sub f touches) hi)) j
  · have hlen : (oldForkWrites p f).length ≤ j := by
      rw [oldForkWrites_eq, List.length_append]; simp; omega
    rw [List.take_of_length_le hlen, applyWs_oldForkWrites, ← applyWs_forkWrites]
    exact inv_mono (below_sub f touches) (inv_fork hi hns hnc (fun _ _ _ => rfl))

/-- **a crash in front of the fork handling's one write** leaves the store untouched: the
invariant of the chain the client was on holds in full, whichever chain it follows afterwards -/
theorem fork_prefix_inv {touches : Nat → Nat → Bool} {p : P} {lo : Nat → Nat} {f : Nat}
    (hi : Inv touches ⟨p, lo⟩) (hns : NoSpan p f) (hnc : NoClaimInRetained p lo f) (j : Nat) :
    Inv touches ⟨applyWs p ((forkWrites p f).take j), lo⟩ := by
  match j with
  | 0 => rw [forkWrites_take_zero]; exact hi
  | j + 1 =>
    rw [forkWrites_take_succ]
    exact inv_fork hi hns hnc (fun _ _ _ => rfl)

/-- the fork handling looks at the records at or below the fork point only -/
theorem forked_congr {p q : P} {f : Nat} (hs : q.scripts = p.scripts) (hm : q.minF = p.minF)
    (hx : q.indexed = p.indexed)
    (hr : q.records.filter (fun r => r.start ≤ f) = p.records.filter (fun r => r.start ≤ f)) :
    forked q f = forked p f := by
  have hrb : forkRb q f = forkRb p f := by unfold forkRb; rw [hr]
  unfold forked
  rw [hrb, hr]
  cases p; cases q
  simp only at hs hm hx
  subst hs hm hx
  rfl

/-- the store in front of write `j` of the fork handling, while records are being deleted -/
theorem forkDels_take (p : P) (f j : Nat) :
    ∃ R, applyWs p ((forkDels p f).take j) = { p with records := R } ∧
      R.filter (fun r => r.start ≤ f) = p.records.filter (fun r => r.start ≤ f) := by
  unfold forkDels
  rw [← List.map_take, applyWs_delRecords]
  refine ⟨_, rfl, ?_⟩
  rw [List.filter_filter]
  apply List.filter_congr
  intro r _
  by_cases hle : r.start ≤ f
  · have : (List.take j (p.records.filter (fun r => f < r.start)).reverse).any
        (fun x => x.start = r.start) = false := by
      rw [List.any_eq_false]
      intro x hx
      have hx' := List.mem_reverse.mp (List.mem_of_mem_take hx)
      have := (List.mem_filter.mp hx').2
      simp only [decide_eq_true_eq] at this ⊢
      omega
    simp [hle, this]
  · simp [hle]

/-- running the fork handling on its own result changes nothing -/
theorem refork_idempotent (p : P) (f : Nat) : forked (forked p f) f = forked p f := by
  have hpos := forkRb_pos p f
  have hrec : (forked p f).records.filter (fun r => r.start ≤ f) = (forked p f).records := by
    rw [forked_records, List.filter_filter]
    apply List.filter_congr
    intro r _
    simp
  have hrb : forkRb (forked p f) f = forkRb p f := by
    unfold forkRb
    rw [hrec, forked_records]
  have hlt : ∀ s ∈ (forked p f).scripts, s.2 < forkRb p f := by
    intro s hs
    obtain ⟨e, _, _, h2⟩ := mem_forked_scripts hs
    rcases h2 with ⟨_, h⟩ | ⟨_, h⟩ <;> omega
  have hmin := (forked_minF_le p f).1
  have h1 : (forked (forked p f) f).scripts = (forked p f).scripts := by
    rw [forked_scripts (forked p f), hrb]
    conv => rhs; rw [← List.map_id (forked p f).scripts]
    apply List.map_congr_left
    intro s hs
    have := hlt s hs
    rw [if_neg (by omega)]; rfl
  have h2 : (forked (forked p f) f).minF = (forked p f).minF := by
    rw [forked_minF (forked p f), hrb, if_neg (by omega)]
  have h3 : (forked (forked p f) f).records = (forked p f).records := by
    rw [forked_records (forked p f), hrec]
  have h4 : (forked (forked p f) f).indexed = (forked p f).indexed := by
    rw [forked_indexed (forked p f), hrb]
    apply List.filter_eq_self.mpr
    intro x _
    have : (forked p f).scripts.any (fun s => s.1 = x.1 && forkRb p f ≤ s.2) = false := by
      rw [List.any_eq_false]
      intro s hs
      have := hlt s hs
      simp; intro _; omega
    simp [this]
  generalize forked (forked p f) f = a at *
  generalize forked p f = b at *
  cases a; cases b
  simp only at h1 h2 h3 h4
  subst h1 h2 h3 h4
  rfl

/-- **crash and re-detection**: whether the process dies in front of the fork handling's write or
behind it (the new tip is stored only after the fork handling, so the restarted client detects the
same fork again), the repeated fork handling ends in exactly the store of the uninterrupted one -/
theorem refork_after_crash (p : P) (f j : Nat) :
    let pj := applyWs p ((forkWrites p f).take j)
    applyWs pj (forkWrites pj f) = applyWs p (forkWrites p f) := by
  match j with
  | 0 =>
    intro pj
    have : pj = p := forkWrites_take_zero p f
    rw [this]
  | j + 1 =>
    intro pj
    have : pj = forked p f := by
      show applyWs p ((forkWrites p f).take (j + 1)) = _
      rw [forkWrites_take_succ, forked_eq]
    rw [this, forked_eq, forked_eq]
    exact refork_idempotent p f

/-! ## histories with reorganisations -/

/-- the store after the fork handling died in front of write `j` for every `j` of `cs`, one
attempt after the other (each restart detects the same fork again) -/
def crashedFork (p : P) (f : Nat) (cs : List Nat) : P :=
  cs.foldl (fun q j => applyWs q ((forkWrites q f).take j)) p

theorem fork_after_crashes (p : P) (f : Nat) (cs : List Nat) :
    applyWs (crashedFork p f cs) (forkWrites (crashedFork p f cs) f) = applyWs p (forkWrites p f) := by
  induction cs generalizing p with
  | nil => rfl
  | cons j cs ih =>
    have e : crashedFork p f (j :: cs) = crashedFork (applyWs p ((forkWrites p f).take j)) f cs := rfl
    rw [e, ih]
    exact refork_after_crash p f j

/-- an event of a sync history: an operation of the filter sync (possibly interrupted by a crash
after `j` of its writes), or a reorganisation of the chain with fork point `f` to a chain
`touches'`, whose handling is interrupted by crashes `cs` (any number, anywhere) before it
completes -/
inductive Ev where
  | op (op : Op) (j : Option Nat)
  | fork (f : Nat) (touches' : Nat → Nat → Bool) (cs : List Nat)

def stepEv (t : Nat → Nat → Bool) (g : G) : Ev → (Nat → Nat → Bool) × G
  | .op op (some j) => (t, stepG g op j)
  | .op op none => (t, stepFull g op)
  | .fork f t' cs =>
    (t', ⟨applyWs (crashedFork g.p f cs) (forkWrites (crashedFork g.p f cs) f), g.lo⟩)

def runEv (t : Nat → Nat → Bool) (g : G) : List Ev → (Nat → Nat → Bool) × G
  | [] => (t, g)
  | ev :: rest => runEv (stepEv t g ev).1 (stepEv t g ev).2 rest

/-- what the environment guarantees about an event -/
def EvOk (t : Nat → Nat → Bool) (g : G) : Ev → Prop
  | .op op _ => OpOk t g op
  | .fork f t' _ => NoSpan g.p f ∧ NoClaimInRetained g.p g.lo f ∧ Agree f t t'

def EvsOk (t : Nat → Nat → Bool) (g : G) : List Ev → Prop
  | [] => True
  | ev :: rest => EvOk t g ev ∧ EvsOk (stepEv t g ev).1 (stepEv t g ev).2 rest

theorem inv_stepEv (t : Nat → Nat → Bool) (g : G) (ev : Ev) (hi : Inv t g) (ho : EvOk t g ev) :
    Inv (stepEv t g ev).1 (stepEv t g ev).2 := by
  cases ev with
  | op op j =>
    cases j with
    | some j => exact inv_stepG t g op j hi ho
    | none => exact inv_stepFull t g op hi ho
  | fork f t' cs =>
    obtain ⟨h1, h2, h3⟩ := ho
    show Inv t' ⟨applyWs (crashedFork g.p f cs) (forkWrites (crashedFork g.p f cs) f), g.lo⟩
    rw [fork_after_crashes]
    obtain ⟨p, lo⟩ := g
    exact inv_fork hi h1 h2 h3

/-- **every history of operations, crashes and reorganisations keeps the invariant** (for the
chain of the moment) -/
theorem inv_runEv : ∀ (evs : List Ev) (t : Nat → Nat → Bool) (g : G),
    Inv t g → EvsOk t g evs → Inv (runEv t g evs).1 (runEv t g evs).2
  | [], _, _, hi, _ => hi
  | ev :: rest, t, g, hi, ho =>
    inv_runEv rest _ _ (inv_stepEv t g ev hi ho.1) ho.2

end Sync

import LcModel.Prelude
/-!
# Sync layer — filter progress, pending matched-block records and their writes
Write-level model of the operations that move the filter-sync state in the store:
`Storage::update_filter_scripts` (set_scripts), `BlockFiltersProcess::execute` (a batch of block
filters), the completion of a matched-block batch in `SyncProtocol::received(SendBlock)`,
`Storage::rollback_to_block` as called on a fork, `update_block_number`, and crash / restart.

Every operation is a list of *atomic writes* in the order the code issues them (a single
`put` / `delete` or one `WriteBatch` commit); a crash keeps a prefix of that list.  Block hashes
are block numbers (one chain); which blocks touch which script is the environment `touches`.
-/
namespace Sync

/-- a pending matched-blocks record: blocks `[start, start+count)` were filtered, `matched` of
them have to be downloaded and indexed -/
structure Record where
  start : Nat
  count : Nat
  matched : List Nat
  deriving Repr, DecidableEq

/-- the persistent state (store) -/
structure P where
  scripts : List (Nat × Nat)       -- script id ↦ recorded block number
  minF : Nat                       -- MIN_FILTERED_NUMBER
  records : List Record            -- MATCHED_BLOCKS, by start number
  indexed : List (Nat × Nat)       -- (script, block): the block has been indexed for the script
  deriving Repr, DecidableEq

/-- atomic writes -/
inductive W where
  | putScripts (scripts : List (Nat × Nat))        -- a FILTER_SCRIPTS batch alone (not issued any more)
  /-- the single batch of `update_filter_scripts`: the script set, the block number to filter
  from (if it changes) and the removal of every matched-blocks record -/
  | setBatch (scripts : List (Nat × Nat)) (minF : Option Nat)
  | putMinF (n : Nat)
  | clearRecords
  | putRecord (r : Record)
  | delRecord (start : Nat)
  | filterBlock (b : Nat)                           -- index block b for all registered scripts
  | updateBlockNumber (n : Nat)
  /-- the batch of `rollback_to_block_with_filtered_number`: blocks from `toNumber` on are
  removed, the scripts that were rolled back get the number `filtered` (the fork handling
  passes `toNumber - 1`: the block `toNumber` itself is removed) -/
  | rollback (toNumber filtered : Nat)
  /-- the batch of `rollback_after_fork`: the records that start above the fork point go, the
  index is rolled back to `rb` and the rolled-back scripts record `rb - 1` -/
  | forkBatch (forkNumber rb : Nat)
  deriving Repr, DecidableEq

def insertRecord (r : Record) : List Record → List Record
  | [] => [r]
  | x :: xs => if r.start < x.start then r :: x :: xs
               else if r.start = x.start then r :: xs else x :: insertRecord r xs

def applyW (p : P) : W → P
  | .putScripts s => { p with scripts := s }
  | .setBatch s m => { p with scripts := s, minF := m.getD p.minF, records := [] }
  | .putMinF n => { p with minF := n }
  | .clearRecords => { p with records := [] }
  | .putRecord r => { p with records := insertRecord r p.records }
  | .delRecord start => { p with records := p.records.filter (·.start ≠ start) }
  | .filterBlock b =>
    { p with indexed := p.indexed ++ (p.scripts.map (fun s => (s.1, b))).filter (fun e => !p.indexed.contains e) }
  | .updateBlockNumber n => { p with scripts := p.scripts.map (fun s => if s.2 < n then (s.1, n) else s) }
  | .rollback toNumber filtered =>
    { p with
      indexed := p.indexed.filter (fun e =>
        !(e.2 ≥ toNumber && p.scripts.any (fun s => s.1 = e.1 && toNumber ≤ s.2))),
      scripts := p.scripts.map (fun s => if toNumber ≤ s.2 then (s.1, filtered) else s),
      minF := if toNumber ≤ p.minF then toNumber - 1 else p.minF }
  | .forkBatch f rb =>
    let q : P := { p with records := p.records.filter (fun r => r.start ≤ f) }
    { q with
      indexed := q.indexed.filter (fun e =>
        !(e.2 ≥ rb && q.scripts.any (fun s => s.1 = e.1 && rb ≤ s.2))),
      scripts := q.scripts.map (fun s => if rb ≤ s.2 then (s.1, rb - 1) else s),
      minF := if rb ≤ q.minF then rb - 1 else q.minF }

def applyWs (p : P) (ws : List W) : P := ws.foldl applyW p

/-! ### set_scripts -/

inductive Cmd where | all | part | del deriving Repr, DecidableEq

/-- upsert in order (later occurrences of the same script overwrite earlier ones) -/
def upsert (scripts : List (Nat × Nat)) (s : Nat × Nat) : List (Nat × Nat) :=
  if scripts.any (·.1 = s.1) then scripts.map (fun e => if e.1 = s.1 then s else e)
  else scripts ++ [s]

def minOf : List Nat → Option Nat
  | [] => none
  | x :: xs => match minOf xs with
    | none => some x
    | some m => some (min x m)

/-- the genesis block is filtered right after the batch when a given block number is 0 -/
def genesisWrites (cmd : Cmd) (arg : List (Nat × Nat)) : List W :=
  if cmd ≠ .del && arg.any (·.2 = 0) then [.filterBlock 0] else []

/-- the writes of `update_filter_scripts`, in issue order: one batch, then the genesis block -/
def setScriptsWrites (p : P) (cmd : Cmd) (arg : List (Nat × Nat)) : List W :=
  match cmd with
  | .all =>
    let scripts := arg.foldl upsert []
    [.setBatch scripts (minOf (arg.map (·.2)))] ++ genesisWrites cmd arg
  | .part =>
    if arg.isEmpty then []
    else
      let scripts := arg.foldl upsert p.scripts
      let m := (minOf (arg.map (·.2))).getD 0
      -- the pending records are cleared, so the kept scripts have to be filtered again from
      -- their own recorded numbers
      let kept := p.scripts.filter (fun e => !arg.any (·.1 = e.1))
      let target := if p.scripts.isEmpty then m
        else (minOf ([m] ++ kept.map (·.2) ++ [p.minF])).getD m
      [.setBatch scripts (some target)] ++ genesisWrites cmd arg
  | .del =>
    if arg.isEmpty then []
    else
      let kept := p.scripts.filter (fun e => !arg.any (·.1 = e.1))
      [.setBatch kept ((minOf (kept.map (·.2))).map (fun m => min m p.minF))]

/-! ### a batch of block filters -/

/-- the writes of `BlockFiltersProcess::execute` for an accepted prefix `[start, start+k)` whose
filters matched `matched`; `volatileEmpty` = the in-memory matched-blocks map is empty -/
def filtersWrites (p : P) (start k : Nat) (matched : List Nat) (volatileEmpty : Bool) : List W :=
  if p.scripts.isEmpty then []
  else if p.minF + 1 ≠ start then
    (if p.records.isEmpty then [.updateBlockNumber p.minF] else [])
  else if k = 0 then []
  else
    (if !matched.isEmpty then [.putRecord ⟨start, k, matched⟩]
     else if volatileEmpty then [.updateBlockNumber (start + k - 1)] else []) ++
    [.putMinF (start + k - 1)]

/-! ### completion of the earliest matched-block batch (all its blocks downloaded) -/

/-- the writes of the `SendBlock` handler once every block of the earliest record has arrived:
the blocks are indexed in number order, the scripts' numbers are raised, and only then the record
is dropped -/
def blocksWrites (p : P) : List W :=
  match p.records with
  | [] => []
  | r :: _ => (r.matched.map W.filterBlock) ++ [.updateBlockNumber (r.start + r.count - 1), .delRecord r.start]

/-! ### fork rollback (`commit_prove_state`) -/

/-- the rollback point of the fork handling: the block after the last record that starts at or
below the fork point, or after the fork point itself -/
def forkRb (p : P) (f : Nat) : Nat :=
  (match (p.records.filter (fun r => r.start ≤ f)).getLast? with
    | some r => r.start | none => f) + 1

/-- `Storage::rollback_after_fork`: ONE batch removes the records that start above the fork point
and rolls the index back to the block after the last remaining record (or the fork point) -/
def forkWrites (p : P) (forkNumber : Nat) : List W :=
  [.forkBatch forkNumber (forkRb p forkNumber)]

/-- the fork handling as it was before the repair: the records above the fork point were deleted
one by one, THEN the rollback batch was written -/
def oldForkWrites (p : P) (forkNumber : Nat) : List W :=
  let dropped := (p.records.filter (fun r => forkNumber < r.start)).reverse.map (fun r => W.delRecord r.start)
  dropped ++ [.rollback (forkRb p forkNumber) (forkRb p forkNumber - 1)]

/-! ### driver -/

/-- the name of the write site in `storage.rs` that issues the write -/
def siteOf : W → String
  | .putMinF _ => "put_min_filtered_block_number"
  | .putRecord _ => "put_matched_blocks"
  | .delRecord _ => "delete_matched_blocks"
  | _ => "commit_batch"

def showWrites (ws : List W) : String := "writes " ++ " ".intercalate (ws.map siteOf)

def showRec (r : Record) : String := s!"({r.start},{r.count},{r.matched})"

def sortById (l : List (Nat × Nat)) : List (Nat × Nat) :=
  let rec ins (x : Nat × Nat) : List (Nat × Nat) → List (Nat × Nat)
    | [] => [x]
    | y :: ys => if x.1 < y.1 then x :: y :: ys else y :: ins x ys
  l.foldr ins []

def showP (p : P) : String :=
  s!"scripts {sortById p.scripts} minF {p.minF} records [{", ".intercalate (p.records.map showRec)}]"

def parsePairs : List Nat → List (Nat × Nat)
  | a :: b :: rest => (a, b) :: parsePairs rest
  | _ => []

def groups (sep : String) (ts : List String) : List (List String) :=
  ts.foldr (fun t acc => if t = sep then [] :: acc else match acc with
    | g :: gs => (t :: g) :: gs
    | [] => [[t]]) [[]]

/-- ops:
 `reset minF`
 `set cmd(0 all,1 partial,2 delete) | id n id n …`
 `filters start k volatileEmpty | matched…`
 `blocks`
 `fork n`
 `updnum n`
 `dump`
 a trailing ` @ j` after an op keeps only the first `j` writes (a crash) -/
def stepLine (p : P) (line : String) : P × String :=
  let (main, crash) := match groups "@" (tokens line) with
    | [m, [j]] => (m, j.toNat?)
    | m :: _ => (m, none)
    | [] => ([], none)
  let cut (ws : List W) : List W := match crash with | some j => ws.take j | none => ws
  let gs := groups "|" main
  match gs with
  | ["reset", m] :: _ => (match m.toNat? with
      | some m => (⟨[], m, [], []⟩, "ok") | none => (p, "bad-op"))
  | ["set", c] :: arg :: _ =>
    (match c.toNat?, natsOf arg with
     | some c, some arg =>
       let cmd := if c = 0 then Cmd.all else if c = 1 then Cmd.part else Cmd.del
       let ws := setScriptsWrites p cmd (parsePairs arg)
       (applyWs p (cut ws), showWrites ws)
     | _, _ => (p, "bad-op"))
  | ["filters", s, k, ve] :: m :: _ =>
    (match s.toNat?, k.toNat?, ve.toNat?, natsOf m with
     | some s, some k, some ve, some m =>
       let ws := filtersWrites p s k m (ve = 1)
       (applyWs p (cut ws), showWrites ws)
     | _, _, _, _ => (p, "bad-op"))
  | ["blocks"] :: _ => let ws := blocksWrites p; (applyWs p (cut ws), showWrites ws)
  | ["fork", n] :: _ => (match n.toNat? with
      | some n => let ws := forkWrites p n; (applyWs p (cut ws), showWrites ws)
      | none => (p, "bad-op"))
  | ["updnum", n] :: _ => (match n.toNat? with
      | some n => (applyW p (.updateBlockNumber n), "ok") | none => (p, "bad-op"))
  | ["dump"] :: _ => (p, showP p)
  | _ => (p, "bad-op")

end Sync

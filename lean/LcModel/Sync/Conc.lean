import LcModel.Sync.Lemmas
/-!
# Sync layer — threads over the store (C17)

A small-step semantics of the four store-mutating operations of the client running on different
threads: `set_scripts` (the RPC thread), a batch of block filters (the filter protocol), the
completion of a matched-blocks record by `SendBlock` (the sync protocol) and the fork rollback of
`commit_prove_state` (the light-client protocol).  In the code every one of them takes the write
guard of `Peers::matched_blocks()` before its first read of the filter-sync state and keeps it
across its last store write.

A thread executes a list of operations.  An operation = take the lock, compute the write list
from the CURRENT store (`cWrites`, i.e. `opWrites` / `forkWrites` of the write-level model),
apply the writes one at a time, release.  A scheduler picks any thread at every step; a thread
can take the lock only when it is free (`stepL`).  `stepU` is the same machine without the lock:
an operation computes its writes when it starts, and the writes of different threads interleave
freely.

What is not modelled: real schedulers, the memory model, lock fairness, the reads an operation
does before it takes the lock (the harness of `./check C17` exercises those).
-/
namespace Sync

/-- the four serialised operations: the three of `Op`, and the fork rollback -/
inductive COp where
  | op (o : Op)
  | fork (forkNumber : Nat)

def cWrites (p : P) : COp → List W
  | .op o => opWrites p o
  | .fork n => forkWrites p n

/-- an operation run alone -/
def runOp (p : P) (o : COp) : P := applyWs p (cWrites p o)

/-- operations one after another -/
def runSerial (p : P) (os : List COp) : P := os.foldl runOp p

theorem runSerial_nil (p : P) : runSerial p [] = p := rfl
theorem runSerial_cons (p : P) (o : COp) (os : List COp) :
    runSerial p (o :: os) = runSerial (runOp p o) os := rfl
theorem runSerial_append (p : P) (os os' : List COp) :
    runSerial p (os ++ os') = runSerial (runSerial p os) os' := by
  unfold runSerial; rw [List.foldl_append]

/-- a thread: the operations it has not started yet, and the writes that remain of the
operation in progress (`none` = between operations) -/
structure Thread where
  todo : List COp
  cur : Option (List W)

/-- a configuration: the store, the holder of the lock, the threads -/
structure Cfg where
  store : P
  lock : Option Nat
  threads : List Thread

def todos (c : Cfg) : List (List COp) := c.threads.map (·.todo)

/-- nobody has started -/
def initial (c : Cfg) : Prop := c.lock = none ∧ ∀ t ∈ c.threads, t.cur = none

/-- everybody is done -/
def final (c : Cfg) : Prop := c.lock = none ∧ ∀ t ∈ c.threads, t.todo = [] ∧ t.cur = none

/-- one step of thread `i` **with the lock**: acquire (only a free lock) and compute the writes;
one write (only the holder); release -/
def stepL (c : Cfg) (i : Nat) : Option Cfg :=
  match c.threads[i]? with
  | none => none
  | some t =>
    match t.cur with
    | none =>
      match t.todo, c.lock with
      | o :: rest, none =>
        some ⟨c.store, some i, c.threads.set i ⟨rest, some (cWrites c.store o)⟩⟩
      | _, _ => none
    | some ws =>
      if c.lock = some i then
        match ws with
        | [] => some ⟨c.store, none, c.threads.set i ⟨t.todo, none⟩⟩
        | w :: ws' => some ⟨applyW c.store w, some i, c.threads.set i ⟨t.todo, some ws'⟩⟩
      else none

/-- one step of thread `i` **without the lock**: start (compute the writes from the store as it
is now); one write; finish -/
def stepU (c : Cfg) (i : Nat) : Option Cfg :=
  match c.threads[i]? with
  | none => none
  | some t =>
    match t.cur with
    | none =>
      match t.todo with
      | o :: rest => some ⟨c.store, c.lock, c.threads.set i ⟨rest, some (cWrites c.store o)⟩⟩
      | [] => none
    | some [] => some ⟨c.store, c.lock, c.threads.set i ⟨t.todo, none⟩⟩
    | some (w :: ws') => some ⟨applyW c.store w, c.lock, c.threads.set i ⟨t.todo, some ws'⟩⟩

/-- executions: any thread at every step -/
inductive Reach (step : Cfg → Nat → Option Cfg) : Cfg → Cfg → Prop
  | refl (c : Cfg) : Reach step c c
  | tail {c c' c'' : Cfg} {i : Nat} : Reach step c c' → step c' i = some c'' → Reach step c c''

theorem Reach.trans {step : Cfg → Nat → Option Cfg} {a b c : Cfg}
    (h1 : Reach step a b) (h2 : Reach step b c) : Reach step a c := by
  induction h2 with
  | refl => exact h1
  | tail _ hs ih => exact Reach.tail ih hs

/-- an execution given by its schedule (the thread picked at every step) -/
def runSched (step : Cfg → Nat → Option Cfg) : Cfg → List Nat → Option Cfg
  | c, [] => some c
  | c, i :: is => match step c i with
    | some c' => runSched step c' is
    | none => none

theorem reach_of_runSched {step : Cfg → Nat → Option Cfg} :
    ∀ (s : List Nat) (c c' : Cfg), runSched step c s = some c' → Reach step c c' := by
  intro s
  induction s with
  | nil => intro c c' h; simp [runSched] at h; subst h; exact Reach.refl _
  | cons i is ih =>
    intro c c' h
    simp only [runSched] at h
    cases hs : step c i with
    | none => rw [hs] at h; cases h
    | some c1 =>
      rw [hs] at h
      exact Reach.trans (Reach.tail (Reach.refl _) hs) (ih c1 c' h)

/-! ## interleavings -/

/-- `Consumes done ls ls'`: `done` takes elements from the fronts of the lists `ls`, from any
list at each step, and leaves `ls'` -/
inductive Consumes {α : Type} : List α → List (List α) → List (List α) → Prop
  | nil (ls : List (List α)) : Consumes [] ls ls
  | cons {x : α} {xs : List α} {ls ls' : List (List α)} {i : Nat} {l : List α} :
    ls[i]? = some (x :: l) → Consumes xs (ls.set i l) ls' → Consumes (x :: xs) ls ls'

/-- `order` is an interleaving of the lists `ls` that keeps the order of each list -/
def Interleaving {α : Type} (order : List α) (ls : List (List α)) : Prop :=
  ∃ ls', Consumes order ls ls' ∧ ∀ l ∈ ls', l = []

theorem Consumes.snoc {α : Type} {done : List α} {ls ls' : List (List α)} {i : Nat} {x : α}
    {l : List α} (h : Consumes done ls ls') (hi : ls'[i]? = some (x :: l)) :
    Consumes (done ++ [x]) ls (ls'.set i l) := by
  induction h with
  | nil ls => exact Consumes.cons hi (Consumes.nil _)
  | cons h1 _ ih => exact Consumes.cons h1 (ih hi)

theorem flatten_set_perm {α : Type} {x : α} {l : List α} :
    ∀ (ls : List (List α)) (i : Nat), ls[i]? = some (x :: l) →
      ls.flatten.Perm (x :: (ls.set i l).flatten) := by
  intro ls
  induction ls with
  | nil => intro i h; simp at h
  | cons a as ih =>
    intro i h
    cases i with
    | zero =>
      simp at h
      subst h
      simp
    | succ j =>
      simp at h
      have := ih j h
      simp only [List.set_cons_succ, List.flatten_cons]
      exact (List.Perm.append_left a this).trans List.perm_middle

/-- an interleaving uses every operation of every thread exactly once … -/
theorem Consumes.perm {α : Type} {done : List α} {ls ls' : List (List α)}
    (h : Consumes done ls ls') : (done ++ ls'.flatten).Perm ls.flatten := by
  induction h with
  | nil ls => simp
  | cons h1 _ ih =>
    exact (List.Perm.cons _ ih).trans (flatten_set_perm _ _ h1).symm

theorem Interleaving.perm {α : Type} {order : List α} {ls : List (List α)}
    (h : Interleaving order ls) : order.Perm ls.flatten := by
  rcases h with ⟨ls', hc, hnil⟩
  have hp := hc.perm
  have : ls'.flatten = [] := by
    simp only [List.flatten_eq_nil_iff]
    exact hnil
  rw [this, List.append_nil] at hp
  exact hp

/-- … and keeps the order of every thread: what thread `j` has consumed is a subsequence of
`done` -/
theorem Consumes.sublist {α : Type} {done : List α} {ls ls' : List (List α)}
    (h : Consumes done ls ls') (j : Nat) :
    ∃ pre, (ls[j]?).getD [] = pre ++ (ls'[j]?).getD [] ∧ pre.Sublist done := by
  induction h with
  | nil ls => exact ⟨[], by simp, List.Sublist.refl _⟩
  | @cons x xs ls ls' i l h1 _ ih =>
    rcases ih with ⟨pre, hpre, hsub⟩
    by_cases hji : j = i
    · subst hji
      have hlt : j < ls.length := by
        rcases List.getElem?_eq_some_iff.1 h1 with ⟨hlt, _⟩
        exact hlt
      rw [List.getElem?_set_self hlt] at hpre
      simp only [Option.getD_some] at hpre
      refine ⟨x :: pre, ?_, List.Sublist.cons_cons _ hsub⟩
      rw [h1]
      simp only [Option.getD_some, List.cons_append]
      rw [← hpre]
    · rw [List.getElem?_set_ne (Ne.symm hji)] at hpre
      exact ⟨pre, hpre, List.Sublist.cons _ hsub⟩

theorem Interleaving.sublist {α : Type} {order : List α} {ls : List (List α)}
    (h : Interleaving order ls) {j : Nat} {l : List α} (hj : ls[j]? = some l) :
    l.Sublist order := by
  rcases h with ⟨ls', hc, hnil⟩
  rcases hc.sublist j with ⟨pre, hpre, hsub⟩
  have hnilj : (ls'[j]?).getD [] = [] := by
    cases hx : ls'[j]? with
    | none => rfl
    | some l' => exact hnil l' (List.mem_of_getElem? hx)
  rw [hj, hnilj, List.append_nil] at hpre
  simp only [Option.getD_some] at hpre
  rw [hpre]; exact hsub

/-! ## inversion of `stepL` -/

theorem stepL_cases {c c' : Cfg} {i : Nat} (h : stepL c i = some c') :
    (∃ t o rest, c.threads[i]? = some t ∧ t.cur = none ∧ t.todo = o :: rest ∧ c.lock = none ∧
      c' = ⟨c.store, some i, c.threads.set i ⟨rest, some (cWrites c.store o)⟩⟩) ∨
    (∃ t w ws, c.threads[i]? = some t ∧ t.cur = some (w :: ws) ∧ c.lock = some i ∧
      c' = ⟨applyW c.store w, some i, c.threads.set i ⟨t.todo, some ws⟩⟩) ∨
    (∃ t, c.threads[i]? = some t ∧ t.cur = some [] ∧ c.lock = some i ∧
      c' = ⟨c.store, none, c.threads.set i ⟨t.todo, none⟩⟩) := by
  unfold stepL at h
  cases ht : c.threads[i]? with
  | none => rw [ht] at h; cases h
  | some t =>
    rw [ht] at h
    simp only at h
    cases hc : t.cur with
    | none =>
      rw [hc] at h
      simp only at h
      cases htodo : t.todo with
      | nil => rw [htodo] at h; cases h
      | cons o rest =>
        rw [htodo] at h
        cases hl : c.lock with
        | some j => rw [hl] at h; cases h
        | none =>
          rw [hl] at h
          simp only [Option.some.injEq] at h
          exact Or.inl ⟨t, o, rest, rfl, hc, htodo, rfl, h.symm⟩
    | some ws =>
      rw [hc] at h
      simp only at h
      by_cases hl : c.lock = some i
      · rw [if_pos hl] at h
        cases ws with
        | nil =>
          simp only [Option.some.injEq] at h
          exact Or.inr (Or.inr ⟨t, rfl, hc, hl, h.symm⟩)
        | cons w ws' =>
          simp only [Option.some.injEq] at h
          exact Or.inr (Or.inl ⟨t, w, ws', rfl, hc, hl, h.symm⟩)
      · rw [if_neg hl] at h; cases h

theorem todos_set (ts : List Thread) (i : Nat) (t : Thread) :
    (ts.set i t).map (·.todo) = (ts.map (·.todo)).set i t.todo := by
  rw [List.map_set]

theorem todos_get {ts : List Thread} {i : Nat} {t : Thread} (h : ts[i]? = some t) :
    (ts.map (·.todo))[i]? = some t.todo := by
  rw [List.getElem?_map, h]; rfl

theorem set_same_todo {ts : List Thread} {i : Nat} {t : Thread} (h : ts[i]? = some t)
    (cur : Option (List W)) :
    (ts.set i ⟨t.todo, cur⟩).map (·.todo) = ts.map (·.todo) := by
  rw [todos_set]
  apply List.ext_getElem?
  intro j
  by_cases hji : i = j
  · subst hji
    have hlt : i < (ts.map (·.todo)).length := by
      rcases List.getElem?_eq_some_iff.1 (todos_get h) with ⟨hlt, _⟩; exact hlt
    rw [List.getElem?_set_self hlt, todos_get h]
  · rw [List.getElem?_set_ne hji]

/-! ## the serialisation invariant -/

/-- every reachable configuration is a serial execution of the operations started so far, in the
order the lock was taken, the last of them possibly cut after a prefix of its writes -/
def SerInv (p0 : P) (ls0 : List (List COp)) (c : Cfg) : Prop :=
  match c.lock with
  | none => ∃ done, Consumes done ls0 (todos c) ∧ c.store = runSerial p0 done
  | some i => ∃ done o pre ws t,
      Consumes (done ++ [o]) ls0 (todos c) ∧ c.threads[i]? = some t ∧ t.cur = some ws ∧
      cWrites (runSerial p0 done) o = pre ++ ws ∧ c.store = applyWs (runSerial p0 done) pre

theorem serInv_initial {c : Cfg} (h : initial c) : SerInv c.store (todos c) c := by
  unfold SerInv
  rw [h.1]
  exact ⟨[], Consumes.nil _, rfl⟩

theorem serInv_step {p0 : P} {ls0 : List (List COp)} {c c' : Cfg} {i : Nat}
    (hinv : SerInv p0 ls0 c) (hs : stepL c i = some c') : SerInv p0 ls0 c' := by
  rcases stepL_cases hs with ⟨t, o, rest, ht, _, htodo, hl, rfl⟩ |
    ⟨t, w, ws, ht, hcur, hl, rfl⟩ | ⟨t, ht, hcur, hl, rfl⟩
  · -- acquire
    unfold SerInv at hinv
    rw [hl] at hinv
    rcases hinv with ⟨done, hcons, hstore⟩
    have hlt : i < c.threads.length := by
      rcases List.getElem?_eq_some_iff.1 ht with ⟨hlt, _⟩; exact hlt
    unfold SerInv
    refine ⟨done, o, [], cWrites c.store o, ⟨rest, some (cWrites c.store o)⟩, ?_, ?_, rfl, ?_, ?_⟩
    · have hi : (todos c)[i]? = some (o :: rest) := by
        unfold todos; rw [todos_get ht, htodo]
      have := hcons.snoc hi
      unfold todos at this ⊢
      rw [todos_set]
      exact this
    · exact List.getElem?_set_self hlt
    · rw [← hstore]; rfl
    · exact hstore
  · -- write
    unfold SerInv at hinv
    rw [hl] at hinv
    rcases hinv with ⟨done, o, pre, ws0, t0, hcons, ht0, hcur0, hw, hstore⟩
    rw [ht] at ht0
    cases ht0
    rw [hcur] at hcur0
    cases hcur0
    have hlt : i < c.threads.length := by
      rcases List.getElem?_eq_some_iff.1 ht with ⟨hlt, _⟩; exact hlt
    unfold SerInv
    refine ⟨done, o, pre ++ [w], ws, ⟨t.todo, some ws⟩, ?_, ?_, rfl, ?_, ?_⟩
    · unfold todos at hcons ⊢
      rw [set_same_todo ht]
      exact hcons
    · exact List.getElem?_set_self hlt
    · rw [hw]; simp
    · show applyW c.store w = _
      rw [hstore, applyWs_append]; rfl
  · -- release
    unfold SerInv at hinv
    rw [hl] at hinv
    rcases hinv with ⟨done, o, pre, ws0, t0, hcons, ht0, hcur0, hw, hstore⟩
    rw [ht] at ht0
    cases ht0
    rw [hcur] at hcur0
    cases hcur0
    unfold SerInv
    refine ⟨done ++ [o], ?_, ?_⟩
    · unfold todos at hcons ⊢
      rw [set_same_todo ht]
      exact hcons
    · show c.store = _
      rw [runSerial_append, hstore]
      rw [List.append_nil] at hw
      show _ = runOp _ o
      unfold runOp
      rw [hw]

theorem serInv_reach {c0 c : Cfg} (hinit : initial c0) (h : Reach stepL c0 c) :
    SerInv c0.store (todos c0) c := by
  induction h with
  | refl => exact serInv_initial hinit
  | tail _ hs ih => exact serInv_step ih hs

/-! ## well-formedness and progress -/

/-- the lock is held exactly by the one thread that is inside an operation -/
def WF (c : Cfg) : Prop :=
  match c.lock with
  | none => ∀ t ∈ c.threads, t.cur = none
  | some i => ∃ t ws, c.threads[i]? = some t ∧ t.cur = some ws ∧
      ∀ j t', j ≠ i → c.threads[j]? = some t' → t'.cur = none

theorem wf_initial {c : Cfg} (h : initial c) : WF c := by
  unfold WF; rw [h.1]; exact h.2

theorem wf_step {c c' : Cfg} {i : Nat} (hwf : WF c) (hs : stepL c i = some c') : WF c' := by
  rcases stepL_cases hs with ⟨t, o, rest, ht, _, _, hl, rfl⟩ |
    ⟨t, w, ws, ht, hcur, hl, rfl⟩ | ⟨t, ht, hcur, hl, rfl⟩
  · unfold WF at hwf
    rw [hl] at hwf
    have hlt : i < c.threads.length := by
      rcases List.getElem?_eq_some_iff.1 ht with ⟨hlt, _⟩; exact hlt
    unfold WF
    refine ⟨_, _, List.getElem?_set_self hlt, rfl, ?_⟩
    intro j t' hj hget
    rw [List.getElem?_set_ne (Ne.symm hj)] at hget
    exact hwf t' (List.mem_of_getElem? hget)
  · unfold WF at hwf
    rw [hl] at hwf
    rcases hwf with ⟨_, _, _, _, hothers⟩
    have hlt : i < c.threads.length := by
      rcases List.getElem?_eq_some_iff.1 ht with ⟨hlt, _⟩; exact hlt
    unfold WF
    refine ⟨_, _, List.getElem?_set_self hlt, rfl, ?_⟩
    intro j t' hj hget
    rw [List.getElem?_set_ne (Ne.symm hj)] at hget
    exact hothers j t' hj hget
  · unfold WF at hwf
    rw [hl] at hwf
    rcases hwf with ⟨_, _, _, _, hothers⟩
    have hlt : i < c.threads.length := by
      rcases List.getElem?_eq_some_iff.1 ht with ⟨hlt, _⟩; exact hlt
    unfold WF
    intro t' hmem
    rcases List.getElem?_of_mem hmem with ⟨j, hget⟩
    by_cases hj : j = i
    · subst hj
      rw [List.getElem?_set_self hlt] at hget
      cases hget; rfl
    · rw [List.getElem?_set_ne (Ne.symm hj)] at hget
      exact hothers j t' hj hget

theorem wf_reach {c0 c : Cfg} (hinit : initial c0) (h : Reach stepL c0 c) : WF c := by
  induction h with
  | refl => exact wf_initial hinit
  | tail _ hs ih => exact wf_step ih hs

/-- a well-formed configuration that is not final has a step -/
theorem wf_progress {c : Cfg} (hwf : WF c) (hnf : ¬ final c) : ∃ i c', stepL c i = some c' := by
  unfold WF at hwf
  cases hl : c.lock with
  | none =>
    rw [hl] at hwf
    -- some thread has work left
    have : ∃ t ∈ c.threads, t.todo ≠ [] := by
      apply Classical.byContradiction
      intro hno
      apply hnf
      refine ⟨hl, ?_⟩
      intro t ht
      refine ⟨?_, hwf t ht⟩
      apply Classical.byContradiction
      intro hne
      exact hno ⟨t, ht, hne⟩
    rcases this with ⟨t, ht, hne⟩
    rcases List.getElem?_of_mem ht with ⟨i, hget⟩
    cases htodo : t.todo with
    | nil => exact absurd htodo hne
    | cons o rest =>
      refine ⟨i, ⟨c.store, some i, c.threads.set i ⟨rest, some (cWrites c.store o)⟩⟩, ?_⟩
      unfold stepL
      rw [hget]
      simp only [hwf t ht, htodo, hl]
  | some i =>
    rw [hl] at hwf
    rcases hwf with ⟨t, ws, hget, hcur, _⟩
    cases ws with
    | nil =>
      refine ⟨i, ⟨c.store, none, c.threads.set i ⟨t.todo, none⟩⟩, ?_⟩
      unfold stepL
      rw [hget]
      simp only [hcur, hl, if_true]
    | cons w ws' =>
      refine ⟨i, ⟨applyW c.store w, some i, c.threads.set i ⟨t.todo, some ws'⟩⟩, ?_⟩
      unfold stepL
      rw [hget]
      simp only [hcur, hl, if_true]

/-! ## termination: no execution goes on for ever -/

/-- operations not started yet, and what remains of the operation in progress -/
def work (c : Cfg) : Nat × Nat :=
  ((todos c).flatten.length,
   match c.lock with
   | none => 0
   | some i => match c.threads[i]? with
     | some ⟨_, some ws⟩ => ws.length + 1
     | _ => 0)

theorem work_decreases {c c' : Cfg} {i : Nat} (hs : stepL c i = some c') :
    Prod.Lex (· < ·) (· < ·) (work c') (work c) := by
  rcases stepL_cases hs with ⟨t, o, rest, ht, _, htodo, hl, rfl⟩ |
    ⟨t, w, ws, ht, hcur, hl, rfl⟩ | ⟨t, ht, hcur, hl, rfl⟩
  · apply Prod.Lex.left
    have hi : (todos c)[i]? = some (o :: rest) := by
      unfold todos; rw [todos_get ht, htodo]
    have hp := (flatten_set_perm (todos c) i hi).length_eq
    unfold work todos at *
    simp only [todos_set]
    simp only [List.length_cons] at hp
    omega
  · have hlt : i < c.threads.length := by
      rcases List.getElem?_eq_some_iff.1 ht with ⟨hlt, _⟩; exact hlt
    have h1 : (work ⟨applyW c.store w, some i, c.threads.set i ⟨t.todo, some ws⟩⟩).1 = (work c).1 := by
      unfold work todos; simp only [set_same_todo ht]
    have h2 : (work ⟨applyW c.store w, some i, c.threads.set i ⟨t.todo, some ws⟩⟩).2 = ws.length + 1 := by
      unfold work; simp only [List.getElem?_set_self hlt]
    have h3 : (work c).2 = ws.length + 2 := by
      unfold work; simp only [hl, ht]
      cases t with
      | mk td cr => simp only at hcur; subst hcur; simp
    rw [show work ⟨applyW c.store w, some i, c.threads.set i ⟨t.todo, some ws⟩⟩ = ((work c).1, ws.length + 1) from
      Prod.ext h1 h2, show work c = ((work c).1, ws.length + 2) from Prod.ext rfl h3]
    exact Prod.Lex.right _ (by simp)
  · have h1 : (work ⟨c.store, none, c.threads.set i ⟨t.todo, none⟩⟩).1 = (work c).1 := by
      unfold work todos; simp only [set_same_todo ht]
    have h2 : (work ⟨c.store, none, c.threads.set i ⟨t.todo, none⟩⟩).2 = 0 := rfl
    have h3 : (work c).2 = 1 := by
      unfold work; simp only [hl, ht]
      cases t with
      | mk td cr => simp only at hcur; subst hcur; simp
    rw [show work ⟨c.store, none, c.threads.set i ⟨t.todo, none⟩⟩ = ((work c).1, 0) from
      Prod.ext h1 h2, show work c = ((work c).1, 1) from Prod.ext rfl h3]
    exact Prod.Lex.right _ (by simp)

/-- from every well-formed configuration the threads can run to completion -/
theorem can_complete (c : Cfg) (hwf : WF c) : ∃ c', Reach stepL c c' ∧ final c' := by
  by_cases hf : final c
  · exact ⟨c, Reach.refl _, hf⟩
  · have hp := wf_progress hwf hf
    have hs := hp.choose_spec.choose_spec
    have ih := can_complete hp.choose_spec.choose (wf_step hwf hs)
    rcases ih with ⟨c', hr, hfin⟩
    exact ⟨c', Reach.trans (Reach.tail (Reach.refl _) hs) hr, hfin⟩
termination_by work c
decreasing_by exact work_decreases hs

end Sync

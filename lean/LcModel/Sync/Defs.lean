import LcModel.Sync.Model
/-!
# Sync layer — vocabulary of the C08 / C09 theorems

`touches s b` (a parameter everywhere) says that block `b` of the chain contains activity of
script `s`.  The store `P` is extended by one ghost component: `lo s`, the block number the user
registered script `s` with the last time a `set_scripts` command named it.  The ghost is only
read by the invariant, never by the model.
-/
namespace Sync

/-- store + ghost -/
structure G where
  p : P
  lo : Nat → Nat

/-- the operations that move the filter-sync state -/
inductive Op where
  /-- `set_scripts(cmd, arg)` -/
  | set (cmd : Cmd) (arg : List (Nat × Nat))
  /-- a `BlockFilters` message whose accepted prefix is `[start, start+k)`, of which `matched`
  matched; `ve` = the in-memory matched-blocks map was empty -/
  | filters (start k : Nat) (matched : List Nat) (ve : Bool)
  /-- the last block of the earliest matched-blocks record has arrived -/
  | blocks

/-- the atomic writes of an operation, in the order the code issues them -/
def opWrites (p : P) : Op → List W
  | .set cmd arg => setScriptsWrites p cmd arg
  | .filters start k matched ve => filtersWrites p start k matched ve
  | .blocks => blocksWrites p

/-- the last number given for script `s` in `arg` (later occurrences win, like the batch) -/
def lastGiven (s : Nat) : List (Nat × Nat) → Option Nat
  | [] => none
  | (s', n) :: rest => match lastGiven s rest with
    | some m => some m
    | none => if s' = s then some n else none

/-- the ghost after a command that was committed -/
def loAfter (lo : Nat → Nat) : Op → Nat → Nat
  | .set .all arg => fun s => (lastGiven s arg).getD (lo s)
  | .set .part arg => fun s => (lastGiven s arg).getD (lo s)
  | _ => lo

/-- the state after the first `j` writes of `op` reached the store (`j ≥` the number of writes =
the operation completed; a smaller `j` = the process died in front of write `j+1`).  The batch of
`set_scripts` is its first write, the registration takes effect with it. -/
def stepG (g : G) (op : Op) (j : Nat) : G :=
  { p := applyWs g.p ((opWrites g.p op).take j),
    lo := if j = 0 then g.lo else loAfter g.lo op }

/-- the completed operation -/
def stepFull (g : G) (op : Op) : G := stepG g op (opWrites g.p op).length

def pending (p : P) (b : Nat) : Prop := ∃ r ∈ p.records, b ∈ r.matched

/-- records are ordered by their start numbers (the key order of the store), contain their
matched blocks, and start at or below `minF + 1`.  (Their ranges may overlap: a record written
just before a crash can be followed by shorter batches over the same blocks.) -/
def RecordsOk (p : P) : Prop :=
  p.records.Pairwise (fun a b => a.start < b.start) ∧
  (∀ r ∈ p.records, ∀ b ∈ r.matched, r.start ≤ b ∧ b < r.start + r.count) ∧
  (∀ r ∈ p.records, r.start ≤ p.minF + 1)

/-- **the invariant**: for every registered script `(s, n)` and every block `b` above the number
`lo s` the script was registered with (activity at or below the registration number is not asked
for: a fork rollback may even move `n` below `lo s`, the blocks in between are then followed
again without being owed)
* `safe`: every block in `(lo s, n]` that touches it is indexed — `get_scripts` does not
  overclaim;
* `cover`: every block in `(n, minF]` that touches it is indexed or waits in a matched-blocks
  record — filter sync (which resumes at `minF + 1`) leaves nothing behind;
* `complete`: a record lists every block of its range that touches a script whose number is
  below that block. -/
structure Inv (touches : Nat → Nat → Bool) (g : G) : Prop where
  keys : (g.p.scripts.map (·.1)).Nodup
  safe : ∀ e ∈ g.p.scripts, ∀ b, touches e.1 b = true → g.lo e.1 < b → b ≤ e.2 →
    (e.1, b) ∈ g.p.indexed
  cover : ∀ e ∈ g.p.scripts, ∀ b, touches e.1 b = true → g.lo e.1 < b → e.2 < b → b ≤ g.p.minF →
    (e.1, b) ∈ g.p.indexed ∨ pending g.p b
  complete : ∀ r ∈ g.p.records, ∀ e ∈ g.p.scripts, ∀ b, r.start ≤ b → b < r.start + r.count →
    touches e.1 b = true → g.lo e.1 < b → e.2 < b → b ∈ r.matched
  records : RecordsOk g.p

/-- what the environment guarantees about an operation (nothing for `set` and `blocks`):
* the matched blocks of a filter batch lie in the batch and contain every block of the batch
  that touches a script whose number is below it (block filters have no false negatives and
  `check_filters_data` looks for every script with a number below the end of the batch; that the
  filter data is the chain's is C06);
* the in-memory matched-blocks map mirrors the store: it is empty only if there is no record
  (it is reloaded from the store by the next timer after a restart or a fork). -/
def OpOk (touches : Nat → Nat → Bool) (g : G) : Op → Prop
  | .filters start k matched ve =>
    (∀ b ∈ matched, start ≤ b ∧ b < start + k) ∧
    (∀ e ∈ g.p.scripts, ∀ b, start ≤ b → b < start + k → touches e.1 b = true → e.2 < b →
      b ∈ matched) ∧
    (ve = true → g.p.records = [])
  | _ => True

/-- a history: operations with the number of writes that reached the store (`none` = all) -/
def runG (touches : Nat → Nat → Bool) (g : G) : List (Op × Option Nat) → G
  | [] => g
  | (op, j) :: rest =>
    runG touches (match j with | some j => stepG g op j | none => stepFull g op) rest

/-- every operation of the history meets `OpOk` in the state it is applied to -/
def HistOk (touches : Nat → Nat → Bool) (g : G) : List (Op × Option Nat) → Prop
  | [] => True
  | (op, j) :: rest => OpOk touches g op ∧
    HistOk touches (match j with | some j => stepG g op j | none => stepFull g op) rest

end Sync

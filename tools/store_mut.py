#!/usr/bin/env python3
"""store_mut.py <id> <srcdir> <confirm-log> <caught_by> <reported;...> [strengthened text]
Stores a confirmed seeded change under /verif/seeded/<id>/ (patch.diff, demo.diff, meta.json)."""
import json, os, shutil, sys
mid, src, log, caught, reported = sys.argv[1:6]
strengthened = sys.argv[6] if len(sys.argv) > 6 else ""
dst = f"/verif/seeded/{mid}"
os.makedirs(dst, exist_ok=True)
for f in ("patch.diff", "demo.diff"):
    shutil.copy(os.path.join(src, f), os.path.join(dst, f))
try:
    meta = json.load(open(os.path.join(src, "meta.json")))
except Exception:
    meta = {"property": mid[:3], "summary": "(the sub-agent left no meta.json; see patch.diff and demo.diff)", "needs": "", "ran": []}
meta["author"] = "independent sub-agent given only the property text and a scratch worktree"
conf = None
for l in open(log):
    l = l.strip()
    if l.startswith("{"):
        d = json.loads(l)
        if d.get("id") == mid:
            conf = d
if conf:
    meta["confirmed"] = {"head": conf.get("head"), "patch_only": conf.get("patch_only"), "patch_plus_demo": conf.get("patch_plus_demo"), "demo_only": conf.get("demo_only"), "how": "tools/confirm_mut.sh in a scratch worktree"}
meta["caught_by"] = caught
meta["reported"] = [r for r in reported.split(";") if r]
if strengthened:
    meta["strengthened"] = strengthened
json.dump(meta, open(os.path.join(dst, "meta.json"), "w"), indent=1, ensure_ascii=False)
print("stored", dst)

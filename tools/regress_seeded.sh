#!/bin/bash
# Regression of the detection power: every stored seeded change is applied in the private rig
# (tools/rig.sh, never /repo) and the check named in its meta.json (caught_by) is run on it.
# One line per change.  VERIF_SEARCH_SECONDS bounds the escalated search (default here: 240).
export VERIF_SEARCH_SECONDS=${VERIF_SEARCH_SECONDS:-240}
cd /verif
tools/rig.sh make >/dev/null 2>&1
for d in /verif/seeded/*/; do
  id=$(basename $d)
  prop=$(python3 -c "
import json,re
m=json.load(open('$d/meta.json'))
c=m.get('caught_by','') or ''
r=re.search(r'check (C\d\d)',c)
print(r.group(1) if r else m['property'])")
  if ! git -C /tmp/rig/repo apply --check $d/patch.diff 2>/dev/null; then echo "$id ($prop): patch does not apply to the current tree"; continue; fi
  out=$(tools/rig.sh try $d $prop 2>&1)
  rc=$(echo "$out" | grep "^exit" | awk '{print $2}')
  sig=$(echo "$out" | grep "^# " | head -2 | cut -c3-100 | tr '\n' ';')
  nf=$(echo "$out" | grep -c "no-failing-input-found")
  echo "$id ($prop): exit $rc  nofailing=$nf  $sig"
done

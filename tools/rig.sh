#!/bin/bash
# rig.sh make            : builds /tmp/rig (scratch worktree of /repo's HEAD + a copy of the harness pointing at it)
# rig.sh sync            : copies the current harness sources into the rig (after harness edits)
# rig.sh try <dir> <prop> [tier] : applies <dir>/patch.diff in the rig's worktree, runs `./check <prop>` on the rig, restores
# rig.sh clean <prop> [tier]     : runs the check on the rig's unchanged worktree (false-alarm test)
# rig.sh remove          : removes the rig
RIG=${RIG:-/tmp/rig}
sync() {
  mkdir -p $RIG/harness $RIG/evidence
  rsync -a --delete --exclude target /verif/harness/ $RIG/harness/
  sed -i "s#\"/repo/src#\"$RIG/repo/src#g" $RIG/harness/src/main.rs
}
case $1 in
  make)
    git -C /repo worktree remove --force $RIG/repo >/dev/null 2>&1
    mkdir -p $RIG
    git -C /repo worktree add --detach $RIG/repo HEAD >/dev/null 2>&1 || exit 2
    sync
    (cd $RIG/harness && CARGO_NET_OFFLINE=true cargo build --offline 2>&1 | tail -1)
    ;;
  sync) sync ;;
  try)
    dir=$2; prop=$3; tier=${4:-quick}
    git -C $RIG/repo checkout -q -- . ; git -C $RIG/repo apply $dir/patch.diff || { echo "patch does not apply"; exit 2; }
    out=$(cd /verif && VERIF_RIG=$RIG ./check $prop --tier $tier 2>&1); rc=$?
    git -C $RIG/repo checkout -q -- .
    echo "$out" | grep -E "^(VIOLATION|KNOWN-FINDING|OK|# )" | cut -c1-240 | head -40
    echo "exit $rc"
    ;;
  clean)
    prop=$2; tier=${3:-quick}
    git -C $RIG/repo checkout -q -- .
    out=$(cd /verif && VERIF_RIG=$RIG ./check $prop --tier $tier 2>&1); rc=$?
    echo "$out" | grep -E "^(VIOLATION|KNOWN-FINDING|OK|# )" | cut -c1-240 | head -40
    echo "exit $rc"
    ;;
  remove)
    git -C /repo worktree remove --force $RIG/repo; rm -rf $RIG ;;
esac

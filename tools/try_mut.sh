#!/bin/bash
# try_mut.sh <dir with patch.diff> <property> [tier]: applies the change to /repo's working tree, runs
# the check of the property, restores the tree.  Output: the tail of the check's output.
dir=$1; prop=$2; tier=${3:-quick}
cd /verif
if [ -n "$(git -C /repo status --porcelain)" ]; then echo "/repo is not clean"; exit 2; fi
git -C /repo apply $dir/patch.diff || { echo "patch does not apply"; exit 2; }
out=$(./check $prop --tier $tier 2>&1); rc=$?
git -C /repo checkout -- .
echo "$out" | grep -E "^(VIOLATION|KNOWN-FINDING|OK|# )" | cut -c1-260 | head -40
echo "exit $rc"

#!/usr/bin/env python3
"""Regenerates /verif/MANIFEST.json from the table below (claimed properties) and
properties.jsonl (everything else goes to not_applicable with its reason)."""
import json, subprocess

CLAIMS = {
 'C01': dict(
   text="Lean 4 theorems over the Prove layer (model of SendLastStateProofProcess::execute, check_if_response_is_matched, check_continuous_headers, commit_prove_state and the peer state machine, with PoW / chain-root commitment / MMR verdicts as inputs): the trusted state (every peer's proved state, stored tip, difficulty, last-N) changes on a SendLastStateProof only if it answers the outstanding request and every returned header is PoW-valid and commits to its chain root, the MMR proof verifies, the reorg / sampled / last-N sections have the requested shape and the checked sections are parent-linked - or the peer merely receives a copy of another peer's proved state (C01.only_verified); accepted shapes are characterised (shape_sound), every sampled header answers a requested difficulty and no requested sample is skipped (samples_sound), a banned response changes nothing trusted (reject_unchanged), an unsolicited one nothing at all (unsolicited_noop). Tied to /repo by event histories against the real LightClientProtocol on simchain chains with an RFC-44 honest server: honest answers to the client's own sampled requests and 14 single-fault edits (incl. re-selected genuine headers with honest MMR proofs), full trusted-state dump compared with the model after every event.",
   note="Trusted: Lean kernel; standard axioms; harness (simchain generator, honest server re-implementation, header->token abstraction, edit generator). Assumptions (inputs of the model): PoW verdict, patched_is_valid verdict, MerkleProof::verify verdict (MmrSound); hashes are ids (collision-free). Hypothesis of only_verified: peer ids in the state are distinct (invariant lemmas onProof_nodup etc.).",
   technique="Lean 4 proof (inversion of the handler, loop specs) + handler-level differential correspondence with edited honest responses", ref="5 C01"),
 'C11': dict(
   text="Lean 4 theorems over the Prove layer: every handler (SendLastState, SendLastStateProof, refresh tick) moves each peer only along paths of documented diagram edges (plus the copy shortcut), other peers do not move (C11.diagram_*); the proved state changes on a proof message only with an outstanding request for that last state or as a copy (proof_needs_request); a last-state update never discards a proof (last_state_keeps_proof); the tick disconnects exactly the peers with an over-age request or last state (timeout_exact); a disconnected peer leaves no state (disconnect_clean); connect starts in RequestFirstLastState (connect_starts) - for any number of peers and any message contents/verdicts. Tied to /repo by the same event histories as C01 with ticks at the timeout boundaries, state kinds compared after every event.",
   note="Trusted: as C01. Request slots of blocks/transactions proofs and their timeouts belong to C16. Hypothesis of proof_needs_request: distinct peer ids (witness_duplicate_ids shows why).",
   technique="Lean 4 proof (case analysis over the state machine, loop invariant for the tick) + handler-level differential correspondence", ref="5 C11"),
 'C12': dict(
   text="Lean 4 theorems over the Prove layer: the stored tip changes only to a strictly greater total difficulty, only to the announced/requested header which becomes the sender's proved header, the stored difficulty is the one committed by that header and - on the child fast path - its parent chain root is the proved parent's (same total difficulty, end number, parent link) (C12.last_state_store, proof_store); no other event writes the tip (other_events_keep_store); along every history the stored difficulty never decreases and the tip is unchanged unless it strictly increased (monotone_history); restart reads exactly the stored triple (restart_reproduces); witness for the forged-child defect fixed in send_last_state.rs. Tied to /repo by the C01 event histories plus forged-child announcements, with oracles on the stored tip.",
   note="Trusted: as C01. The ancestry of the remembered last-N headers is proved only as far as the handlers check it (parent links inside the new section); restart is modelled as reading the three stored values (RocksDB durability assumed).",
   technique="Lean 4 proof + handler-level differential correspondence", ref="5 C12"),
 'C03': dict(
   text="Lean 4 theorems over the Index layer (model of Storage::filter_block / rollback_to_block / add_fetched_tx over structured keys with write-batch semantics): indexing every block of a well-formed chain in order yields, for every registered script, exactly the cells that are live on the chain - right out point, creating block and position, no spent or phantom cell, none missing (C03.cells_equal_chain), every output and every chain-created input touching a registered script is recorded in the history (outputs_recorded, inputs_recorded), and a fetched transaction never disturbs the index nor the stored position of an indexed transaction (fetched_tx_keeps_index; witness of the defect fixed in add_fetched_tx) - for all chains incl. same-block spend chains, multi-script and typed cells. Tied to /repo by storage-level histories of filter_block / add_fetched_tx / add_fetched_header / update_block_number / rollback_to_block on random transaction graphs with full keyspace dumps compared with the model, and with an independent ground-truth indexer.",
   note="Trusted: Lean kernel; standard axioms; harness (transaction graph generator, dump decoder, ground-truth indexer). Structural limit stated in the theorems: inputs spending cells whose creating transaction is unknown to the store are not attributable. The delivery path (filters -> proofs -> blocks) that decides WHICH blocks reach filter_block is the business of C06/C08/C09; RPC paging of the index is C13's.",
   technique="Lean 4 proof (last-writer algebra over write batches, induction over the chain) + storage-level differential correspondence with ground-truth indexer", ref="5 C03"),
 'C07': dict(
   text="Lean 4 theorems over the Quorum layer (model of CheckPoints::add_check_points and LightClientProtocol::finalize_check_points): final check points are never rewritten and the final index never decreases, along every event history (C07.immutable, immutable_history); every newly final index is backed by a quorum (ceil(max_outbound/2)) of distinct proven peers reporting the stored values since the previous final one (C07.quorum); a proven peer contradicting the final value is banned and nobody else (C07.contradiction_banned); fewer deviating peers than the quorum can neither finalize another value nor block agreement (C07.minority_harmless); accepted batches are aligned, contiguous, anchored (C07.add_checked) — for any number of peers, vector lengths and tie-breaks. Tied to /repo by operation-sequence correspondence on the real Peers/LightClientProtocol objects (1..6 peers, max_outbound 1..8, honest/deviating vectors, reconnects) with full state dumps after every finalize and an independent quorum/immutability/ban oracle.",
   note="Trusted: Lean kernel; standard axioms; harness (op generator, hash<->id abstraction, oracle). HashMap iteration order of the implementation enters the model as the universally quantified `choices`. Storage is modelled as the list of final check points (RocksDB assumed to store what is put).",
   technique="Lean 4 proof (loop invariants over the agreement loop) + operation-sequence differential correspondence", ref="5 C07"),
 'C13': dict(
   text="Lean 4 theorems over the Kv layer (model of build_query_options, get_cells, get_transactions in both modes and get_cells_capacity over an ordered byte-keyed store with RocksDB seek semantics): following last_cursor page by page yields every matching entry exactly once in key order, for every strictly sorted store, prefix, page size >= 1 and filter (C13.cells_pages_partition, txs_pages_partition); descending = reverse of ascending (cells_desc_is_reverse); capacity = sum over the returned cells (capacity_eq_sum); grouped pages flatten to the ungrouped scan with one transaction per group (grouped_page); the search prefix selects exactly the entries whose *script* has the prefix (prefix_exact; witness of the ambiguity fixed in service.rs). Tied to /repo by running the real BlockFilterRpcImpl on directly constructed index contents, three-way compared with the model and with a semantic recomputation from the dump.",
   note="Trusted: Lean kernel; standard axioms; harness (store builder, JSON result decoding, semantic oracle). Hypotheses stated in the theorems: keys strictly sorted and byte-valued, no matching key longer than the descending start key (prefix ++ 0xff x (65535 - args_len)). RocksDB iterator/snapshot semantics are assumed as modelled (seek to first >= / last <=). Filter range conventions (script_len closed, others half-open) are the modelled conventions.",
   technique="Lean 4 proof (order/prefix lemmas, paging induction) + RPC-level differential correspondence with semantic oracle", ref="5 C13"),
 'C14': dict(
   text="Lean 4 theorems over the Difficulty layer (model of verify_tau / verify_total_difficulty / check_total_difficulty_limit / compact_to_difficulty in Except-monad machine arithmetic): never aborts for any input (C14.no_abort), accepted end points lie in the tau cone (C14.sound, C14.tau_sound), every legal epoch history is accepted (C14.complete, complete_same_epoch, complete_tau) — all unbounded in epochs/values. Tied to /repo by function-level differential execution of model and implementation (random legal histories up to 4000 epochs with 3..230-bit difficulties, exhaustive small grid, boundary values of every field) plus an independent legality/cone oracle.",
   note="Trusted: Lean kernel; propext/Classical.choice/Quot.sound; harness generators + oracle; numext U256 semantics as exercised. Hypotheses: tau >= 1 (TAU = 2), et <= 2^256-1 (a U256). compact_to_difficulty is mirrored in the model and differentially tested, not verified.",
   technique="Lean 4 proof (induction over epochs) + function-level differential correspondence", ref="5 C14"),
 'C15': dict(
   text="Lean 4 theorems over the Sampling layer (model of build_prove_request_content + sample_blocks with the f64-derived numerators as universally quantified inputs): every built request is well-formed (C15.request_wf), building never aborts (C15.no_abort), sample-count branch structure (C15.count_structure). Tied to /repo by running the real LightClientProtocol::build_prove_request_content(_from_genesis) on generated stores/peer states; the implementation's random draws are validated by the model (choice-as-input). The FlyClient bound itself (a statement about f64 code) is validated, not proved: exact interval-arithmetic recomputation of ceil(lambda/log_{1/2}(1-1/k)) over an (l,n) table and all generated cases — partial by construction.",
   note="Trusted: Lean kernel; standard axioms; harness (generators, float replication of estimate_k/powf for the boundary numerator, interval log2). Not proved: f64 sample-count estimate (validated). Known finding: degenerate range (sample = start).",
   technique="Lean 4 proof + handler-level differential correspondence (choice-as-input) + exact-arithmetic validation of the float bound", ref="5 C15"),
 'C18': dict(
   text="Lean 4 theorems over the Pool layer (model of send_transaction / verify_tx / resolve_tx with the ckb-verification and CKB-VM verdicts as universally quantified inputs, of PendingTxs and of the relay announce logic): admission is sound and complete w.r.t. the stated conditions (C18.admit_sound, admit_complete), a rejected transaction leaves all state unchanged (reject_unchanged), the pool never exceeds its limit and holds one entry per hash along every history (pool_bound), the oldest entry is evicted first (evicts_oldest), pending status iff in pool and not in store (pending_status), only pool members are announced (announced_in_pool), and no (hash, peer) pair is announced twice in any history without evictions (announce_once; witness for the second-residency known finding). Tied to /repo by histories against the real TransactionRpcImpl / PendingTxs / RelayProtocol with real always-success script execution and single-fault transaction edits.",
   note="Trusted: Lean kernel; standard axioms; harness (transaction builder, error classification, mock network context). Verdict oracles: ckb-verification (non-contextual, since/maturity, capacity) and ckb-script/CKB-VM are not modelled — their verdicts are inputs. Relay ticks that need tentacle's p2p_control (protocol open/close) are not driven. Known finding: re-announcement after eviction + re-submission.",
   technique="Lean 4 proof (invariants over event histories) + RPC/handler-level differential correspondence with verdict-level oracle", ref="5 C18"),
}
PENDING_REASON = "not yet built in this round (planned, see DESIGN.md section 5); no claim made"

def main():
    props=[json.loads(l) for l in open('/verif/properties.jsonl')]
    hooks=subprocess.check_output(['git','-C','/repo','log','--format=%h %s']).decode().splitlines()
    hook_commits=[l.split()[0] for l in hooks if l.split(' ',1)[1].startswith('verif hooks')]
    checks=[]
    for p in props:
        i=p['id']
        if i in CLAIMS:
            c=CLAIMS[i]
            checks.append({
              "property_id": i,
              "quick_cmd": "./check %s --tier quick" % i,
              "thorough_cmd": "./check %s --tier thorough" % i,
              "evidence_file": "/verif/evidence/%s.json" % i,
              "replay_cmd_template": "./check %s --replay {path}" % i,
              "engine": "lean4-model+rust-correspondence",
              "level_claimed": {"category": "proof", "text": c['text'], "design_ref": "DESIGN.md section "+c['ref']},
              "level_note": c['note'],
              "technique": c['technique'],
            })
    m={
     "version": 1,
     "setup_cmd": "cd /verif/harness && CARGO_NET_OFFLINE=true cargo build --offline && cd /verif/lean && lake build LcModel lcmodel",
     "hooks": {
       "guard": "nervosnetwork_ckb_light_client_verif",
       "enable": "RUSTFLAGS=--cfg nervosnetwork_ckb_light_client_verif (set in /verif/harness/.cargo/config.toml); the harness crate includes /repo/src/** by #[path]",
       "baseline_off_cmd": "cd /repo && cargo test --workspace --no-fail-fast --offline",
       "source_commits": hook_commits,
       "add_only": True
     },
     "engines": [{"name": "lean4-model+rust-correspondence", "path": "/verif/check", "serves_properties": sorted(CLAIMS),
                  "kind_free_text": "Lean 4 model + theorems (lake build, axiom audit) and Rust differential harness driving /repo's code and the compiled Lean model"}],
     "checks": checks,
     "not_applicable": [{"property_id": p['id'], "reason": PENDING_REASON} for p in props if p['id'] not in CLAIMS],
     "notes": "All checks share one harness binary and one Lean project; builds are serialised by a lock file. Known findings: /verif/known_findings.json."
    }
    json.dump(m,open('/verif/MANIFEST.json','w'),indent=1)

main()

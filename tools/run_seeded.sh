#!/bin/bash
# Applies every stored seeded change to /repo's working tree in turn, runs the quick check of its
# property, restores the tree.  Prints one line per change.  /repo must be clean.
cd /verif
if [ -n "$(git -C /repo status --porcelain)" ]; then echo "/repo is not clean"; exit 2; fi
for d in /verif/seeded/*/; do
  id=$(basename $d)
  prop=$(python3 -c "import json;print(json.load(open('$d/meta.json'))['property'])")
  if ! git -C /repo apply --check $d/patch.diff 2>/dev/null; then
    if git -C /repo apply --3way --check $d/patch.diff 2>/dev/null; then :; fi
    echo "$id ($prop): patch does not apply to the current tree"; continue
  fi
  git -C /repo apply $d/patch.diff
  out=$(./check $prop quick 2>&1); rc=$?
  git -C /repo checkout -- .
  sig=$(echo "$out" | grep -B1 "^VIOLATION" | grep "^# " | head -2 | cut -c3-90 | tr '\n' ';')
  echo "$id ($prop): exit $rc  $sig"
done

#!/bin/bash
# confirm_mut.sh <id> <dir with patch.diff demo.diff meta.json>
# Confirms a seeded change in a scratch worktree of /repo's HEAD: patch only (all tests pass),
# patch + demo (only the demo fails), demo only (all pass).  Prints one JSON line; removes the worktree.
id=$1; src=$2
wt=/tmp/confirm_$id
export CARGO_TARGET_DIR=${CONFIRM_TARGET:-/tmp/confirm_target} CARGO_NET_OFFLINE=true
git -C /repo worktree remove --force $wt >/dev/null 2>&1
git -C /repo worktree add --detach $wt HEAD >/dev/null 2>&1 || { echo "{\"id\":\"$id\",\"error\":\"worktree\"}"; exit 2; }
mkdir -p $wt/tmpd
run() { (cd $wt && TMPDIR=$wt/tmpd cargo test --workspace --no-fail-fast --offline 2>&1 | grep -E "^test result|^test .* FAILED|error(\[|:)" | tr '\n' ';' | cut -c1-400); }
res() { echo "$1" | sed 's/"/\\"/g'; }
if ! git -C $wt apply --check $src/patch.diff 2>/dev/null; then echo "{\"id\":\"$id\",\"error\":\"patch does not apply\"}"; git -C /repo worktree remove --force $wt; exit 2; fi
git -C $wt apply $src/patch.diff; a=$(run)
git -C $wt apply $src/demo.diff 2>/dev/null || { echo "{\"id\":\"$id\",\"error\":\"demo does not apply on patch\"}"; git -C /repo worktree remove --force $wt; exit 2; }
b=$(run)
git -C $wt apply -R $src/patch.diff; c=$(run)
head=$(git -C /repo rev-parse --short HEAD)
echo "{\"id\":\"$id\",\"head\":\"$head\",\"patch_only\":\"$(res "$a")\",\"patch_plus_demo\":\"$(res "$b")\",\"demo_only\":\"$(res "$c")\"}"
git -C /repo worktree remove --force $wt
